#!/usr/bin/env python3
"""merge_c20.py <out> <slice0> <slice1> ...: the thorough tier of C20 runs as several processes, each
covering one slice of the seed's scenario index space. Sums are summed; distinct counts are NOT
summed across slices (a trace shape may recur in another slice): the largest slice's measured
number is reported and every slice is listed with its own."""
import json, sys
out, files = sys.argv[1], sys.argv[2:]
base = json.load(open(files[0]))
cov = base["coverage"]
slices = [{"from": cov["seeds"]["scenario_index_from"], "scenarios": cov["scenarios"], "requests": cov["requests"],
           "distinct_nontrivial": cov["distinct_nontrivial"], "distinct_traces": cov["distinct_traces"], "wall_s": base["wall_s"]}]
def num(x):
    return isinstance(x, (int, float)) and not isinstance(x, bool)
for f in files[1:]:
    e = json.load(open(f)); c = e["coverage"]
    slices.append({"from": c["seeds"]["scenario_index_from"], "scenarios": c["scenarios"], "requests": c["requests"],
                   "distinct_nontrivial": c["distinct_nontrivial"], "distinct_traces": c["distinct_traces"], "wall_s": e["wall_s"]})
    for k in ("evaluations", "requests", "scenarios", "task_polls", "violating_scenarios"):
        cov[k] = cov.get(k, 0) + c.get(k, 0)
    for k in ("counters", "faults_and_schedule", "reach_probes"):
        for kk, v in c.get(k, {}).items():
            if num(v):
                cov[k][kk] = cov[k].get(kk, 0) + v
    if isinstance(cov.get("simulated_time"), dict) and isinstance(c.get("simulated_time"), dict):
        for kk, v in c["simulated_time"].items():
            if num(v):
                cov["simulated_time"][kk] = cov["simulated_time"].get(kk, 0) + v
    base["wall_s"] += e["wall_s"]
    base["violations"] = base.get("violations", 0) + e.get("violations", 0)
    cov["seeds"]["scenario_index_to_exclusive_upper_bound"] = c["seeds"]["scenario_index_to_exclusive_upper_bound"]
    cov["seeds"]["scenarios_completed"] = cov["seeds"].get("scenarios_completed", 0) + c["seeds"].get("scenarios_completed", 0)
best = max(slices, key=lambda s: s["distinct_nontrivial"])
cov["distinct_nontrivial"] = best["distinct_nontrivial"]
cov["distinct_traces"] = best["distinct_traces"]
cov["slices"] = slices
cov["explanation"] = "distinct_nontrivial / distinct_traces are those of the largest single slice (not summed over slices); sums are over all slices"
if base["wall_s"] > 0:
    cov["requests_per_hour"] = int(cov["requests"] / base["wall_s"] * 3600)
    cov["scenarios_per_hour"] = int(cov["scenarios"] / base["wall_s"] * 3600)
json.dump(base, open(out, "w"), indent=1)
