#!/usr/bin/env python3
"""Sensitivity runs never change /repo. A deliberate, property-breaking change is applied to a scratch
COPY of /repo's current working tree, and ./check decides that copy (VERIF_SCRATCH_REPO / VERIF_SCRATCH_OUT:
cargo `paths` override, build output / work files / evidence of its own, see ./check).

Why (DESIGN.md section 13): until round 1 the tools patched /repo in place and undid it in a `finally:`.
The end-of-round snapshot of /repo was taken while `seeded.py detect C14-10A` was in flight, the seeded
change was committed with it, and the tool's `git checkout -- .` then restored the change instead of
removing it. Nothing a tool does after the fact can prevent that; not touching /repo can.

    with scratch.copy_of_repo() as (repo, env):   # repo: the copy; env: what ./check needs
        ...change files under repo...
        subprocess.run("/verif/check C06", env=env, ...)

The copy is removed on exit. The build output (about 1 GB, one minute to recreate) is removed too unless
VERIF_SCRATCH_KEEP=1, which a wave of several hundred runs sets and then clears with `scratch.py clean`."""
import contextlib, os, shutil, subprocess, sys

ROOT = os.environ.get("VERIF_SCRATCH_ROOT", "/tmp/verif_scratch")


def repo_status():
    return subprocess.run("git -C /repo status --porcelain", shell=True, capture_output=True, text=True).stdout


@contextlib.contextmanager
def copy_of_repo():
    before = repo_status()
    repo = f"{ROOT}/repo_{os.getpid()}"
    out = f"{ROOT}/out"
    shutil.rmtree(repo, ignore_errors=True)
    os.makedirs(ROOT, exist_ok=True)
    # the working tree as it is (tracked or not), without git metadata and build output
    subprocess.run(["rsync", "-a", "--exclude", "/.git", "--exclude", "/target", "/repo/", repo + "/"], check=True)
    env = dict(os.environ, VERIF_SCRATCH_REPO=repo, VERIF_SCRATCH_OUT=out)
    try:
        yield repo, env
    finally:
        shutil.rmtree(repo, ignore_errors=True)
        if os.environ.get("VERIF_SCRATCH_KEEP") != "1":
            shutil.rmtree(out, ignore_errors=True)
        after = repo_status()
        if after != before:
            sys.stderr.write(f"scratch: /repo's status changed during the run (not by this tool):\nbefore:\n{before}\nafter:\n{after}\n")


if __name__ == "__main__":
    if sys.argv[1:] == ["clean"]:
        shutil.rmtree(ROOT, ignore_errors=True)
        print(f"removed {ROOT}")
    else:
        print(__doc__)
