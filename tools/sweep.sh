#!/usr/bin/env bash
# false-alarm sweep on the unchanged tree: many VERIF_SEED values per property, with a frozen
# copy of the binary so that rebuilding meanwhile does not disturb it. Usage: sweep.sh <from> <to>
BIN=/verif/.work/sweep/protosim
LOG=/verif/.work/sweep/sweep_$1_$2.log
: > $LOG
for seed in $(seq $1 $2); do
  for p in C01 C02 C03 C04 C06 C07 C08 C09 C10 C11 C12 C14 C15; do
    out=$(VERIF_SEED=$seed $BIN check $p --evidence /verif/.work/sweep/ev_$p.json 2>&1)
    rc=$?
    echo "seed=$seed $p rc=$rc $(echo "$out" | tail -1)" >> $LOG
    if [ $rc -ne 0 ]; then echo "$out" | grep -E "violation|VIOLATION|HARNESS|^  " | head -8 >> $LOG; fi
    case $p in C04|C06|C14) ;; *)
      out=$(VERIF_SEED=$seed /verif/.work/sweep/protosim_uniform check $p --scenarios 150000 --evidence /verif/.work/sweep/ev_u_$p.json 2>&1); rc=$?
      echo "seed=$seed $p(uniform) rc=$rc $(echo "$out" | tail -1)" >> $LOG
      if [ $rc -ne 0 ]; then echo "$out" | grep -E "violation|VIOLATION|HARNESS|^  " | head -8 >> $LOG; fi;;
    esac
  done
  out=$(VERIF_SEED=$seed /verif/.work/sweep/httpsim check --evidence /verif/.work/sweep/ev_C20.json 2>&1); rc=$?
  echo "seed=$seed C20 rc=$rc $(echo "$out" | tail -1)" >> $LOG
  if [ $rc -ne 0 ]; then echo "$out" | grep -E "violation|VIOLATION|HARNESS|^  " | head -8 >> $LOG; fi
done
echo DONE >> $LOG
