#!/usr/bin/env bash
# Re-enact the acceptance probe on the current tree: the environment it exports, MANIFEST.setup_cmd,
# then every check's quick_cmd once, each with its evidence file removed first so that the run has
# to rewrite it. A check is "quiet" when it exits 0, prints no VIOLATION line and rewrote its
# evidence file. Exit 0 only if setup succeeded and every check was quiet.
# Usage: tools/probe_quick.sh [Cxx ...]        log: /verif/.work/probe/<id>.log, summary on stdout
export CARGO_NET_OFFLINE=true GOPROXY=off PIP_NO_INDEX=1 VERIF_SEED=${VERIF_SEED:-1} VERIF_TIER=quick
cd /verif || exit 2
mkdir -p .work/probe
if [ -n "$(git -C /repo status --porcelain)" ]; then
  echo "NOTE: /repo has uncommitted changes:"; git -C /repo status --short
fi
setup=$(python3 -c "import json; print(json.load(open('MANIFEST.json'))['setup_cmd'])")
t0=$(date +%s)
if ! bash -c "$setup" > .work/probe/setup.log 2>&1; then
  echo "setup FAILED ($setup)"; tail -20 .work/probe/setup.log; exit 1
fi
echo "setup ok $(( $(date +%s) - t0 ))s"
bad=0
python3 - "$@" <<'E' > .work/probe/cmds.tsv
import json, sys
want = sys.argv[1:]
for c in json.load(open('MANIFEST.json'))['checks']:
    if not want or c['property_id'] in want:
        print(c['property_id'], c['evidence_file'], c['quick_cmd'], sep='\t')
E
while IFS=$'\t' read -r id ev cmd; do
  rm -f "$ev"
  t0=$(date +%s)
  bash -c "$cmd" > ".work/probe/$id.log" 2>&1
  rc=$?
  nviol=$(grep -c '^VIOLATION' ".work/probe/$id.log")
  known=$(grep -c '^KNOWN-FINDING' ".work/probe/$id.log")
  evok=no; [ -s "$ev" ] && python3 -c "import json,sys; json.load(open(sys.argv[1]))" "$ev" 2>/dev/null && evok=yes
  verdict=quiet
  if [ $rc -ne 0 ] || [ "$nviol" -ne 0 ] || [ $evok != yes ]; then verdict=ALARM; bad=1; fi
  echo "$id $verdict exit=$rc violations=$nviol known=$known evidence=$evok $(( $(date +%s) - t0 ))s | $(tail -1 ".work/probe/$id.log" | cut -c1-150)"
done < .work/probe/cmds.tsv
exit $bad
