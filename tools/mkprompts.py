#!/usr/bin/env python3
"""mkprompts.py <wave>: write /tmp/agent<wave>_prompt_<prop>.txt for every claimed property, from the
wave-5 prompt (property text + task) with the list of already-tried ideas rebuilt from the
summaries in /verif/seeded/<prop>-*/meta.json (the sub-agents' own descriptions of their changes;
nothing about the checks). Creates the worktrees /tmp/wt<wave>_<prop> at /repo HEAD."""
import sys, json, glob, os, re, subprocess
wave = sys.argv[1]
props = sys.argv[2:] or "C01 C02 C03 C04 C06 C07 C08 C09 C10 C11 C12 C14 C15 C20".split()
for p in props:
    t = open(f"/tmp/agent5_prompt_{p}.txt").read()
    a = t.index("Other people have already tried")
    b = t.index("All of the above have been tried")
    head = t[:a]
    intro = t[a:t.index("\n", a) + 1]
    ideas = []
    for d in sorted(glob.glob(f"/verif/seeded/{p}-*")):
        try:
            m = json.load(open(d + "/meta.json"))
        except Exception:
            continue
        s = " ".join(str(m.get("summary", "")).split())
        if s:
            ideas.append("  - " + s[:220])
    out = head + intro + "\n".join(ideas) + "\n\n" + t[b:]
    out = out.replace("wt5_", f"wt{wave}_")
    open(f"/tmp/agent{wave}_prompt_{p}.txt", "w").write(out)
    wt = f"/tmp/wt{wave}_{p}"
    if not os.path.exists(wt):
        subprocess.run(["git", "-C", "/repo", "worktree", "add", "--detach", wt, "HEAD"], capture_output=True)
    print(p, len(ideas), "ideas", os.path.exists(wt))
