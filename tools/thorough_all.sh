#!/usr/bin/env bash
# run the thorough tier of every check on the current tree, log exit code and wall time
LOG=/verif/.work/thorough_all.log
: > $LOG
for p in "$@"; do
  t0=$(date +%s)
  /verif/check $p --tier thorough > /verif/.work/thorough_$p.log 2>&1
  rc=$?
  echo "$p rc=$rc $(( $(date +%s) - t0 ))s $(grep -c VIOLATION /verif/.work/thorough_$p.log) violations; $(grep -E 'HARNESS|reach' /verif/.work/thorough_$p.log | head -2 | tr '\n' ' ')" >> $LOG
done
echo DONE >> $LOG
