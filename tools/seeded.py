#!/usr/bin/env python3
"""seeded.py verify <prop> <A|B>   confirm, in the sub-agent's scratch worktree /tmp/wt_<prop>, that the change
                                    compiles, passes the existing suite, and that the demo fails with / passes without it;
                                    then store it under /verif/seeded/<prop>-<X>/
   seeded.py detect <dir> [checks...]  apply /verif/seeded/<dir>/patch.diff to a scratch copy of /repo (never to /repo) and run the checks on it."""
import subprocess, sys, json, os, shutil, time
sys.path.insert(0, os.path.dirname(os.path.abspath(__file__)))

def sh(cmd, cwd=None, timeout=3000):
    r = subprocess.run(cmd, shell=True, capture_output=True, text=True, cwd=cwd, timeout=timeout)
    return r.returncode, r.stdout + r.stderr

def verify(prop, x, wave=""):
    wt = f"/tmp/wt{wave}_{prop}"
    sd = f"{wt}/seeded_{x}"
    park = f"/tmp/park{wave}_{prop}"
    os.makedirs(park, exist_ok=True)
    for f in os.listdir(f"{wt}/tests"):
        if f.startswith("seeded_demo"):
            shutil.move(f"{wt}/tests/{f}", f"{park}/{f}")
    sh("git checkout -- src derive", cwd=wt)
    rc, out = sh(f"git apply --check {sd}/patch.diff", cwd=wt)
    res = {"applies": rc == 0}
    if rc != 0:
        print(json.dumps(res), out[-500:]); return res
    sh(f"git apply {sd}/patch.diff", cwd=wt)
    rc, out = sh("cargo test --workspace --no-fail-fast --offline 2>&1 | grep -E '^test result|^error' ", cwd=wt)
    lines = out.strip().splitlines()
    passed = sum(int(l.split(" passed")[0].split()[-1]) for l in lines if l.startswith("test result"))
    failed = any(("error" in l) or ("; 0 failed" not in l) for l in lines)
    res["existing_tests_pass_with_change"] = (not failed) and passed >= 45
    res["existing_passed"] = passed
    feat = "--features actix-web,axum " if prop == "C20" else ""
    shutil.copy(f"{sd}/demo.rs", f"{wt}/tests/seeded_demo_{x}.rs")
    rc, out = sh(f"cargo test --offline {feat}--test seeded_demo_{x} 2>&1 | grep -E '^test result|^error'", cwd=wt)
    res["demo_fails_with_change"] = ("FAILED" in out) or ("error" in out and "test result" not in out)
    res["demo_with_change"] = out.strip()[-200:]
    sh("git checkout -- src derive", cwd=wt)
    rc, out = sh(f"cargo test --offline {feat}--test seeded_demo_{x} 2>&1 | grep -E '^test result|^error'", cwd=wt)
    res["demo_passes_without_change"] = "test result: ok" in out and "FAILED" not in out and "ok. 0 passed" not in out
    res["demo_without_change"] = out.strip()[-200:]
    os.remove(f"{wt}/tests/seeded_demo_{x}.rs")
    ok = res["existing_tests_pass_with_change"] and res["demo_fails_with_change"] and res["demo_passes_without_change"]
    res["confirmed"] = ok
    if ok:
        dst = f"/verif/seeded/{prop}-{wave}{x}"
        os.makedirs(dst, exist_ok=True)
        shutil.copy(f"{sd}/patch.diff", f"{dst}/patch.diff")
        shutil.copy(f"{sd}/demo.rs", f"{dst}/demo.rs")
        meta = {}
        try:
            meta = json.load(open(f"{sd}/meta.json"))
        except Exception as e:
            meta = {"note": f"sub-agent meta.json unreadable: {e}"}
        meta["confirmed_by_me"] = {k: res[k] for k in ("existing_tests_pass_with_change", "existing_passed", "demo_fails_with_change", "demo_passes_without_change")}
        meta["confirmed_by_me"]["what_i_ran"] = ["git apply patch.diff", "cargo test --workspace --no-fail-fast --offline (existing suite, demo files parked)", f"cargo test --offline --test seeded_demo_{x} (with change: must fail)", "git checkout -- src derive", f"cargo test --offline --test seeded_demo_{x} (without change: must pass)"]
        json.dump(meta, open(f"{dst}/meta.json", "w"), indent=1)
    print(json.dumps(res))
    return res

def detect(d, checks):
    """never touches /repo: the change goes into a scratch copy, which ./check then decides (scratch.py)"""
    import scratch
    patch = f"/verif/seeded/{d}/patch.diff"
    row = {"seeded": d}
    with scratch.copy_of_repo() as (repo, env):
        # plain patch(1)-style application: the copy has no git metadata
        rc, out = sh(f"git apply --unsafe-paths --directory={repo} {patch}", cwd="/")
        assert rc == 0, out
        try:
            for c in checks:
                t0 = time.time()
                r = subprocess.run(f"/verif/check {c}", shell=True, capture_output=True, text=True, env=env, timeout=6000)
                out = r.stdout + r.stderr
                assert "SCRATCH: deciding" in out, out[:500]
                v = [l for l in out.splitlines() if l.startswith("violation") or l.startswith("HARNESS") or l.startswith("  ")]
                row[c] = {"exit": r.returncode, "s": round(time.time() - t0), "first": " | ".join(x.strip()[:300] for x in v[:2])}
        finally:
            sh("rm -rf /verif/replays")
    print(json.dumps(row, indent=1))
    return row

if __name__ == "__main__":
    if sys.argv[1] == "verify":
        verify(sys.argv[2], sys.argv[3], sys.argv[4] if len(sys.argv) > 4 else "")
    else:
        d = sys.argv[2]
        checks = sys.argv[3:] or [d.split("-")[0]]
        detect(d, checks)
