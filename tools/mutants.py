#!/usr/bin/env python3
"""Development proof of sensitivity (not registered in MANIFEST): apply each deliberate breakage
to a scratch copy of /repo's working tree (never to /repo: tools/scratch.py), confirm the baseline suite
still passes there, run the named checks on the copy, expect exit 1 from at least the first one. Usage: mutants.py [name ...] [--no-tests]"""
import subprocess, sys, json, time, os
sys.path.insert(0, os.path.dirname(os.path.abspath(__file__)))
import scratch

REPO = "/repo"
M = []
def mut(name, file, old, new, checks, count=1):
    M.append(dict(name=name, file=file, old=old, new=new, checks=checks, count=count))

mut("vec_merge_none", "src/impls.rs",
    "error = match E::merge(error, e, location.push_index(index)) {\n                                ControlFlow::Continue(e) => Some(e),\n                                ControlFlow::Break(e) => return Err(e),\n                            };\n                        }\n                    }\n                }\n                if let Some(e) = error {\n                    Err(e)\n                } else {\n                    Ok(vec)",
    "error = match E::merge(None, e, location.push_index(index)) {\n                                ControlFlow::Continue(e) => Some(e),\n                                ControlFlow::Break(e) => return Err(e),\n                            };\n                        }\n                    }\n                }\n                if let Some(e) = error {\n                    Err(e)\n                } else {\n                    Ok(vec)",
    ["C01", "C02"])
mut("hashmap_ok_res", "src/impls.rs",
    "                if let Some(e) = error {\n                    Err(e)\n                } else {\n                    Ok(res)\n                }",
    "                Ok(res)", ["C01", "C02", "C06"], count=2)
mut("set_continue_returns", "src/impls.rs",
    "Err(e) => {\n                            error = match E::merge(error, e, location.push_index(index)) {\n                                ControlFlow::Continue(e) => Some(e),\n                                ControlFlow::Break(e) => return Err(e),\n                            };\n                        }\n                    }\n                }\n                if let Some(e) = error {\n                    Err(e)\n                } else {\n                    Ok(set)",
    "Err(e) => {\n                            error = match E::merge(error, e, location.push_index(index)) {\n                                ControlFlow::Continue(e) => return Err(e),\n                                ControlFlow::Break(e) => return Err(e),\n                            };\n                        }\n                    }\n                }\n                if let Some(e) = error {\n                    Err(e)\n                } else {\n                    Ok(set)",
    ["C02"], count=2)
mut("tuple_break_continues", "src/impls.rs",
    "error = match E::merge(error, e, location.push_index(1)) {\n                            ControlFlow::Continue(e) => Some(e),\n                            ControlFlow::Break(e) => return Err(e),",
    "error = match E::merge(error, e, location.push_index(1)) {\n                            ControlFlow::Continue(e) => Some(e),\n                            ControlFlow::Break(e) => Some(e),",
    ["C03"], count=2)
mut("tuple3_third_index", "src/impls.rs",
    "let c = C::deserialize_from_value(\n                    iter.next().unwrap().into_value(),\n                    location.push_index(2),",
    "let c = C::deserialize_from_value(\n                    iter.next().unwrap().into_value(),\n                    location.push_index(1),",
    ["C04"])
mut("tuple3_merge_index", "src/impls.rs",
    "error = match E::merge(error, e, location.push_index(2)) {",
    "error = match E::merge(error, e, location.push_index(1)) {",
    ["C04"])
mut("vec_merge_at_own_location", "src/impls.rs",
    "error = match E::merge(error, e, location.push_index(index)) {\n                                ControlFlow::Continue(e) => Some(e),\n                                ControlFlow::Break(e) => return Err(e),\n                            };\n                        }\n                    }\n                }\n                if let Some(e) = error {\n                    Err(e)\n                } else {\n                    Ok(vec)",
    "error = match E::merge(error, e, location) {\n                                ControlFlow::Continue(e) => Some(e),\n                                ControlFlow::Break(e) => return Err(e),\n                            };\n                        }\n                    }\n                }\n                if let Some(e) = error {\n                    Err(e)\n                } else {\n                    Ok(vec)",
    ["C04"])
mut("array_index_zero", "src/impls.rs",
    "T::deserialize_from_value(elem.into_value(), location.push_index(index));",
    "T::deserialize_from_value(elem.into_value(), location.push_index(0));", ["C04", "C14"])
mut("rename_all_beats_rename", "derive/src/parse_type.rs",
    "    match rename {\n        Some(name) => name.to_string(),\n        None => match rename_all {\n            Some(RenameAll::CamelCase) => ident.to_case(Case::Camel),\n            Some(RenameAll::LowerCase) => ident.to_lowercase(),\n            None => ident,\n        },\n    }",
    "    match rename_all {\n        Some(RenameAll::CamelCase) => ident.to_case(Case::Camel),\n        Some(RenameAll::LowerCase) => ident.to_lowercase(),\n        None => match rename {\n            Some(name) => name.to_string(),\n            None => ident,\n        },\n    }",
    ["C07"])
mut("container_rename_all_leaks_into_variant_fields", "derive/src/attribute_parser.rs",
    "        self.rename_all = other.rename_all.clone();",
    "        if other.rename_all.is_some() {\n            self.rename_all = other.rename_all.clone();\n        }",
    ["C07"])
mut("missing_reports_ident", "derive/src/parse_type.rs",
    "                            ::deserr::ErrorKind::MissingField {\n                                field: #key_name,\n                            },",
    "                            ::deserr::ErrorKind::MissingField {\n                                field: stringify!(#field_name),\n                            },",
    ["C08"])
mut("skip_sort_removed", "derive/src/parse_type.rs",
    "        fields_extra.sort_by_key(|x| x.1.skipped);",
    "", ["C08", "C07", "C12"])
mut("accepted_lists_skipped", "derive/src/parse_type.rs",
    "            key_names.push(key_name.clone());\n            field_errs.push(error);",
    "            key_names.push(key_name.clone());\n            field_errs.push(error);\n            let _ = 0;",
    ["C09"])  # placeholder replaced below
mut("variant_match_ignores_case", "derive/src/derive_enum.rs",
    "                #variant_key_name => {\n                    ::std::result::Result::Ok(Self::#variant_ident)\n                }",
    "                deserr_s__ if deserr_s__.eq_ignore_ascii_case(#variant_key_name) => {\n                    ::std::result::Result::Ok(Self::#variant_ident)\n                }",
    ["C10"])
mut("unknown_tag_falls_to_first_variant", "derive/src/derive_enum.rs",
    "                #variant_key_name => {\n                    let mut deserr_error__ = None;\n                    #fields_impl\n                }",
    "                deserr_s__ if deserr_s__.trim() == #variant_key_name => {\n                    let mut deserr_error__ = None;\n                    #fields_impl\n                }",
    ["C10"])
mut("try_from_error_swallowed", "derive/src/parse_type.rs",
    "                                deserr_error__ = match <#err_ty as ::deserr::MergeWithError<_>>::merge(\n                                    deserr_error__,\n                                    tmp_deserr_error__,\n                                    deserr_location__.push_key(deserr_key__.as_str())\n                                ) {\n                                    ::std::ops::ControlFlow::Continue(e) => ::std::option::Option::Some(e),\n                                    ::std::ops::ControlFlow::Break(e) => return ::std::result::Result::Err(e),\n                                };\n                                ::deserr::FieldState::Err",
    "                                let _ = tmp_deserr_error__;\n                                ::deserr::FieldState::Err",
    ["C12", "C11", "C01"])
mut("validate_before_error_check", "derive/src/derive_user_provided_function.rs",
    "                let deserr_final__ = #function_call;\n                #validate",
    "                let deserr_final__ = #function_call;\n                let deserr_final__ = { #validate }?;\n                #validate",
    ["C11"])
mut("tag_from_first_member", "derive/src/derive_enum.rs",
    "let tag_value = ::deserr::Map::remove(&mut deserr_map__, #tag).ok_or_else(|| {",
    "let tag_value = ::deserr::Map::remove(&mut deserr_map__, #tag).filter(|_| ::deserr::Map::len(&deserr_map__) < 4).ok_or_else(|| {",
    ["C10", "C15"])
mut("jsonerror_merge_keeps_self", "src/errors/json.rs",
    "        _self_: Option<Self>,\n        other: JsonError,\n        _merge_location: ValuePointerRef,\n    ) -> ControlFlow<Self, Self> {\n        ControlFlow::Break(other)",
    "        _self_: Option<Self>,\n        other: JsonError,\n        _merge_location: ValuePointerRef,\n    ) -> ControlFlow<Self, Self> {\n        ControlFlow::Break(_self_.unwrap_or(other))",
    ["C03", "C14"])
mut("json_path_index_off_by_one_when_nested", "src/errors/json.rs",
    "            ValuePointerRef::Index { index, prev } => format!(\"{}[{index}]\", rec(*prev)),\n        }\n    }\n    match location {\n        ValuePointerRef::Origin => String::new(),\n        _ => {\n            format!(\"{article} `{}`\", rec(location))",
    "            ValuePointerRef::Index { index, prev } => format!(\"{}[{}]\", rec(*prev), if matches!(prev, ValuePointerRef::Index { .. }) { index + 1 } else { index }),\n        }\n    }\n    match location {\n        ValuePointerRef::Origin => String::new(),\n        _ => {\n            format!(\"{article} `{}`\", rec(location))",
    ["C14"])


mut("aweb_json_error_as_422", "src/actix_web/serde_json.rs",
    "                Err(e) => Err(e)?,",
    "                Err(e) => Err(actix_web::error::ErrorUnprocessableEntity(e.to_string()))?,",
    ["C20"])
mut("aweb_json_noop_waker", "src/actix_web/serde_json.rs",
    "        let res = ready!(fut.poll(cx));",
    "        let _ = cx;\n        let noop = futures::task::noop_waker();\n        let res = ready!(fut.poll(&mut Context::from_waker(&noop)));",
    ["C20"])
mut("jsonerror_response_status", "src/actix_web/serde_json.rs",
    "        actix_web::http::StatusCode::BAD_REQUEST",
    "        actix_web::http::StatusCode::UNPROCESSABLE_ENTITY",
    ["C20"])
mut("query_trims", "src/actix_web/query_parameters.rs",
    "let value = Query::<serde_json::Value>::from_query(query_str)?;",
    "let value = Query::<serde_json::Value>::from_query(query_str.trim_start_matches('+'))?;",
    ["C20"])
mut("axum_rejection_body", "src/axum/serde_json.rs",
    "        (StatusCode::BAD_REQUEST, self.to_string()).into_response()",
    "        (StatusCode::BAD_REQUEST, format!(\"{}\\n\", self)).into_response()",
    ["C20"])
mut("axum_json_rejection_swallowed_status", "src/axum/serde_json.rs",
    "            AxumJsonRejection::JsonRejection(e) => e.into_response(),",
    "            AxumJsonRejection::JsonRejection(e) => (StatusCode::BAD_REQUEST, e.body_text()).into_response(),",
    ["C20"])

# fix up the placeholder: accepted list built from all field names
for m in M:
    if m["name"] == "accepted_lists_skipped":
        m["file"] = "derive/src/parse_type.rs"
        m["old"] = "                            accepted: &[#(#key_names),*],\n                        },\n                        deserr_location__\n                    ) {"
        m["new"] = "                            accepted: &[#(stringify!(#field_names)),*],\n                        },\n                        deserr_location__\n                    ) {"

def sh(cmd, **kw):
    return subprocess.run(cmd, shell=True, capture_output=True, text=True, **kw)

def main():
    args = [a for a in sys.argv[1:] if not a.startswith("--")]
    no_tests = "--no-tests" in sys.argv
    results = []
    for m in M:
        if args and m["name"] not in args:
            continue
        # never touches /repo: the breakage goes into a scratch copy, which ./check then decides (scratch.py)
        with scratch.copy_of_repo() as (repo, env):
            path = f"{repo}/{m['file']}"
            src = open(path).read()
            if src.count(m["old"]) != m["count"]:
                results.append((m["name"], "PATCH-DOES-NOT-APPLY", src.count(m["old"])))
                print(results[-1]); continue
            open(path, "w").write(src.replace(m["old"], m["new"]))
            row = {"name": m["name"]}
            if not no_tests:
                t = sh(f"cd {repo} && CARGO_TARGET_DIR={scratch.ROOT}/out/suite cargo test --workspace --no-fail-fast --offline 2>&1 | grep -E '^test result|error(\\[|:)' ")
                failed = [l for l in t.stdout.splitlines() if "error" in l or (" failed" in l and "; 0 failed" not in l)]
                row["baseline"] = "pass" if not failed else "FAIL: " + "; ".join(failed[:3])
            for c in m["checks"]:
                t0 = time.time()
                r = sh(f"/verif/check {c}", env=env)
                assert "SCRATCH: deciding" in r.stdout, r.stdout[:500]
                viol = [l for l in r.stdout.splitlines() if l.startswith("VIOLATION") or l.startswith("violation") or l.startswith("HARNESS")]
                row[c] = f"exit={r.returncode} {time.time()-t0:.0f}s " + (viol[0][:160] if viol else "")
            results.append(row)
            print(json.dumps(row), flush=True)
    sh("rm -rf /verif/replays")
if __name__ == "__main__":
    main()
