//! Per-property drivers: which runs are made for one scenario and which rules are evaluated on
//! them. `check` is a pure function of (property, scenario, code): that is what makes replay
//! and minimisation possible.

use crate::history::{fingerprint, Event, Outcome, Script};
use crate::rules::{self, Strict, Violation};
use crate::runner::{run, ErrParty, Run, RunCfg, Runners, Source};
use crate::scenario::{Profile, Scenario};
use simcore::desc::{Catalogue, Features};
use simcore::doc::Doc;
use simcore::docgen::{self, FaultCfg};
use simcore::model::{CallStage, Expect, Model};
use simcore::rng::Rng;
use std::collections::{BTreeMap, HashSet};

pub struct Env {
    pub cat: Catalogue,
    pub feats: Vec<Features>,
    pub runners: Vec<Runners>,
}

#[derive(Clone, Copy, Debug, PartialEq, Eq, Hash, PartialOrd, Ord)]
pub enum Prop {
    C01,
    C02,
    C03,
    C04,
    C06,
    C07,
    C08,
    C09,
    C10,
    C11,
    C12,
    C14,
    C15,
}

impl Prop {
    pub fn parse(s: &str) -> Option<Prop> {
        Some(match s {
            "C01" => Prop::C01,
            "C02" => Prop::C02,
            "C03" => Prop::C03,
            "C04" => Prop::C04,
            "C06" => Prop::C06,
            "C07" => Prop::C07,
            "C08" => Prop::C08,
            "C09" => Prop::C09,
            "C10" => Prop::C10,
            "C11" => Prop::C11,
            "C12" => Prop::C12,
            "C14" => Prop::C14,
            "C15" => Prop::C15,
            _ => return None,
        })
    }
    pub fn id(&self) -> &'static str {
        match self {
            Prop::C01 => "C01",
            Prop::C02 => "C02",
            Prop::C03 => "C03",
            Prop::C04 => "C04",
            Prop::C06 => "C06",
            Prop::C07 => "C07",
            Prop::C08 => "C08",
            Prop::C09 => "C09",
            Prop::C10 => "C10",
            Prop::C11 => "C11",
            Prop::C12 => "C12",
            Prop::C14 => "C14",
            Prop::C15 => "C15",
        }
    }
    pub fn tag(&self) -> u64 {
        match self {
            Prop::C01 => 1,
            Prop::C02 => 2,
            Prop::C03 => 3,
            Prop::C04 => 4,
            Prop::C06 => 6,
            Prop::C07 => 7,
            Prop::C08 => 8,
            Prop::C09 => 9,
            Prop::C10 => 10,
            Prop::C11 => 11,
            Prop::C12 => 12,
            Prop::C14 => 14,
            Prop::C15 => 15,
        }
    }
}

#[derive(Clone, Debug)]
pub struct Found {
    pub rule: &'static str,
    pub msg: String,
    /// which of the scenario's runs (script / source / error party)
    pub label: String,
    pub history: Vec<String>,
    pub outcome: String,
    pub fingerprint: u64,
}

#[derive(Default)]
pub struct Stats {
    pub scenarios: u64,
    pub runs: u64,
    pub events: u64,
    pub counters: BTreeMap<String, u64>,
    pub fingerprints: HashSet<u64>,
    pub nontrivial_fingerprints: HashSet<u64>,
    pub nontrivial_program_fp: HashSet<u64>,
    pub programs_used: HashSet<usize>,
    pub samples: Vec<serde_json::Value>,
}

impl Stats {
    pub fn bump(&mut self, key: &str, n: u64) {
        if n > 0 {
            *self.counters.entry(key.to_string()).or_insert(0) += n;
        }
    }
    pub fn merge(&mut self, o: Stats) {
        self.scenarios += o.scenarios;
        self.runs += o.runs;
        self.events += o.events;
        for (k, v) in o.counters {
            *self.counters.entry(k).or_insert(0) += v;
        }
        self.fingerprints.extend(o.fingerprints);
        self.nontrivial_fingerprints.extend(o.nontrivial_fingerprints);
        self.nontrivial_program_fp.extend(o.nontrivial_program_fp);
        self.programs_used.extend(o.programs_used);
        self.samples.extend(o.samples);
    }
}

pub struct Checker<'a> {
    pub env: &'a Env,
    pub scn: &'a Scenario,
    pub stats: &'a mut Stats,
    pub found: Vec<Found>,
    pub run_fps: Vec<u64>,
}

fn script_label(s: &Script) -> String {
    match s {
        Script::AllC => "answers=C*".into(),
        Script::AllB => "answers=B*".into(),
        Script::CkB(k) => format!("answers=C^{k} B*"),
        Script::CkBC(k) => format!("answers=C^{k} B C*"),
        Script::Bits(b, d) => format!(
            "answers={}({})*",
            b.iter().map(|x| if *x { 'B' } else { 'C' }).collect::<String>(),
            if *d { 'B' } else { 'C' }
        ),
    }
}

pub fn cfg_label(cfg: &RunCfg) -> String {
    format!(
        "{} source={:?} error={:?} remove={}",
        script_label(&cfg.script),
        cfg.source,
        cfg.err,
        if cfg.swap_remove { "swap" } else { "shift" }
    )
}

impl<'a> Checker<'a> {
    pub fn cfg(&self, script: Script) -> RunCfg {
        RunCfg {
            script,
            leaf_faults: self.scn.leaf_faults.clone(),
            cb_faults: self.scn.cb_faults.clone(),
            swap_remove: self.scn.swap_remove,
            source: Source::Sim,
            err: ErrParty::Sim,
        }
    }

    pub fn exec_doc(&mut self, doc: &Doc, cfg: &RunCfg, nontrivial: &dyn Fn(&Run) -> bool) -> Run {
        let r = run(&self.env.runners[self.scn.program], doc, cfg);
        self.stats.runs += 1;
        self.stats.events += r.events.len() as u64;
        let fp = fingerprint(&r.events, &r.outcome);
        self.run_fps.push(fp);
        self.stats.fingerprints.insert(fp);
        if nontrivial(&r) {
            self.stats.nontrivial_fingerprints.insert(fp);
            self.stats.nontrivial_program_fp.insert(simcore::rng::mix(fp, 0x9A17, self.scn.program as u64));
        }
        // reach counters
        let mut brk_err = 0;
        let mut brk_merge = 0;
        let mut leaf_fired = 0;
        let mut cb_fired = 0;
        let mut brk_nonempty = 0;
        let mut brk_deep = 0;
        let mut b_brk = 0;
        let mut idx_gt0 = 0;
        for e in &r.events {
            match e {
                Event::Report { brk, self_, loc, ty, .. } | Event::Foreign { brk, self_, loc, ty, .. } => {
                    if *brk {
                        brk_err += 1;
                        if self_.is_some() {
                            brk_nonempty += 1;
                        }
                        if loc.len() >= 3 {
                            brk_deep += 1;
                        }
                        if *ty == 1 {
                            b_brk += 1;
                        }
                    }
                    if loc.iter().any(|s| matches!(s, simcore::doc::Step::Index(i) if *i > 0)) {
                        idx_gt0 += 1;
                    }
                }
                Event::Merge { brk, self_, loc, ty, .. } => {
                    if *brk {
                        brk_merge += 1;
                        if self_.is_some() {
                            brk_nonempty += 1;
                        }
                        if loc.len() >= 3 {
                            brk_deep += 1;
                        }
                        if *ty == 1 {
                            b_brk += 1;
                        }
                    }
                }
                Event::Visit { failed: true, .. } => leaf_fired += 1,
                Event::Call { failed: true, .. } => cb_fired += 1,
                _ => {}
            }
        }
        // a failed field conversion arriving while the container already holds errors
        let mut try_nonempty = 0;
        for w in r.events.windows(2) {
            if let (Event::Foreign { .. }, Event::Merge { self_: Some(_), .. }) = (&w[0], &w[1]) {
                try_nonempty += 1;
            }
        }
        self.stats.bump("probe_try_from_failure_with_nonempty_accumulator", try_nonempty);
        // two or more failing entries handed over by one map target (same parent, key steps)
        let mut by_parent: std::collections::HashMap<Vec<simcore::doc::Step>, u32> = std::collections::HashMap::new();
        for e in &r.events {
            if let Event::Merge { loc, .. } = e {
                if let Some((simcore::doc::Step::Key(_), parent)) = loc.split_last() {
                    *by_parent.entry(parent.to_vec()).or_insert(0) += 1;
                }
            }
        }
        if by_parent.values().any(|n| *n >= 2) {
            self.stats.bump("probe_two_or_more_failing_entries_in_one_object", 1);
        }
        self.stats.bump("break_answers_to_error", brk_err);
        self.stats.bump("break_answers_to_merge", brk_merge);
        self.stats.bump("LEAF-FAIL_fired", leaf_fired);
        self.stats.bump("CB-FAIL_fired", cb_fired);
        self.stats.bump("probe_break_with_nonempty_accumulator", brk_nonempty);
        self.stats.bump("probe_break_at_depth_ge3", brk_deep);
        self.stats.bump("probe_field_error_type_answered_break", b_brk);
        self.stats.bump("probe_report_at_index_gt0", idx_gt0);
        self.stats.bump("map_remove_calls", r.removes as u64);
        self.stats.bump("probe_swap_remove_moved_a_member", r.swap_moved as u64);
        if matches!(r.outcome, Outcome::Ok(_)) {
            self.stats.bump("runs_ok", 1);
        } else {
            self.stats.bump("runs_err", 1);
        }
        r
    }

    pub fn exec(&mut self, cfg: &RunCfg, nontrivial: &dyn Fn(&Run) -> bool) -> Run {
        let doc = self.scn.doc.clone();
        self.exec_doc(&doc, cfg, nontrivial)
    }

    pub fn record(&mut self, vs: Vec<Violation>, cfg: &RunCfg, r: &Run) {
        for v in vs {
            self.found.push(Found {
                rule: v.rule,
                msg: v.msg,
                label: cfg_label(cfg),
                history: r.events.iter().take(400).map(|e| e.render()).collect(),
                outcome: r.outcome.render(),
                fingerprint: fingerprint(&r.events, &r.outcome),
            });
        }
    }

    pub fn model(&self, doc: &Doc) -> Expect {
        Model { cat: &self.env.cat, leaf_faults: &self.scn.leaf_faults, cb_faults: &self.scn.cb_faults }
            .run(&self.env.cat.programs[self.scn.program].root, doc)
    }

    /// stop positions to enumerate: all when the keep-going run has few decisions
    pub fn stop_positions(&self, decisions: usize) -> Vec<usize> {
        const CAP: usize = 48;
        if decisions <= CAP {
            (0..=decisions).collect()
        } else {
            let mut ks: Vec<usize> = (0..32).collect();
            let stride = (decisions - 32) / 14 + 1;
            let mut k = 32;
            while k < decisions {
                ks.push(k);
                k += stride;
            }
            ks.push(decisions - 1);
            ks.push(decisions);
            ks.sort();
            ks.dedup();
            ks
        }
    }
}

fn has_report(r: &Run) -> bool {
    r.events.iter().any(|e| matches!(e, Event::Report { .. } | Event::Foreign { .. }))
}
fn has_break(r: &Run) -> bool {
    r.events.iter().any(|e| e.brk() == Some(true))
}

fn all_classes(_: &str) -> bool {
    true
}

/// The reference interpreter covers everything but NegativeInteger(n >= 0). With duplicate keys
/// it still says which members are examined, which reports and calls are made (every delivered
/// member is an entry of the payload); which occurrence ends up in the value is not specified
/// by any property, so values are only compared without duplicates.
pub fn model_applies(_scn: &Scenario) -> bool {
    // (non-negative numbers handed over as NegativeInteger used to be excluded; the reference
    // interpreter knows them: wrong kind for unsigned targets, the number itself for signed ones)
    true
}

fn m_value_nodup(c: &Checker, exp: &Expect, r: &Run, out: &mut Vec<Violation>) {
    if !c.scn.has_dup {
        rules::m_value("M-value", exp, r, out);
    } else {
        match (&exp.value, &r.outcome) {
            (Some(_), Outcome::Ok(_)) | (None, Outcome::Err { .. }) => {}
            (e, o) => out.push(Violation {
                rule: "M-value",
                msg: format!(
                    "the reference interpreter expects {} but the call ended with {}",
                    if e.is_some() { "success" } else { "failure" },
                    o.render()
                ),
            }),
        }
    }
}

pub fn check(prop: Prop, env: &Env, scn: &Scenario, stats: &mut Stats) -> Vec<Found> {
    check_fp(prop, env, scn, stats).0
}

/// `check` on a thread of its own: whatever the code under test keeps per thread starts out fresh,
/// so the verdict is about this scenario alone and not about what the calling thread did before.
pub fn check_isolated(prop: Prop, env: &Env, scn: &Scenario, stats: &mut Stats) -> Vec<Found> {
    std::thread::scope(|s| s.spawn(|| check(prop, env, scn, stats)).join()).unwrap_or_default()
}

/// A *session*: the scenarios in `earlier` are checked one after the other on one fresh thread,
/// then `scn`. Returns what `scn` is found to violate at the end of that history.
pub fn check_after(prop: Prop, env: &Env, earlier: &[Scenario], scn: &Scenario) -> Vec<Found> {
    std::thread::scope(|s| {
        s.spawn(|| {
            let mut st = Stats::default();
            for e in earlier {
                let _ = check(prop, env, e, &mut st);
            }
            check(prop, env, scn, &mut st)
        })
        .join()
    })
    .unwrap_or_default()
}

/// also returns the fingerprint of everything the check did for this scenario (every run's
/// history fingerprint, in order): the unit of the determinism proof
pub fn check_fp(prop: Prop, env: &Env, scn: &Scenario, stats: &mut Stats) -> (Vec<Found>, u64) {
    let mut c = Checker { env, scn, stats, found: vec![], run_fps: vec![] };
    c.stats.scenarios += 1;
    c.stats.programs_used.insert(scn.program);
    match prop {
        Prop::C01 => c01(&mut c),
        Prop::C03 => c03(&mut c),
        Prop::C04 => c04(&mut c),
        Prop::C12 => c12(&mut c),
        Prop::C02 => c02(&mut c),
        Prop::C06 => c06(&mut c),
        Prop::C07 => c07(&mut c),
        Prop::C08 => c08(&mut c),
        Prop::C09 => c09(&mut c),
        Prop::C10 => c10(&mut c),
        Prop::C11 => c11(&mut c),
        Prop::C15 => c15(&mut c),
        Prop::C14 => crate::c14::c14(&mut c),
    }
    let mut h = simcore::rng::Fnv::new();
    h.str(&scn.doc.render());
    for fp in &c.run_fps {
        h.u64(*fp);
    }
    h.u64(c.found.len() as u64);
    (c.found, h.finish())
}

// ---------------------------------------------------------------------------------------------

fn conservation_rules(r: &Run) -> Vec<Violation> {
    let mut out = vec![];
    rules::h_ok_silent(r, &mut out);
    rules::h_conserve(r, &mut out);
    rules::h_linear(r, &mut out);
    out
}

fn c01(c: &mut Checker) {
    let base_cfg = c.cfg(Script::AllC);
    let base = c.exec(&base_cfg, &has_report);
    c.record(conservation_rules(&base), &base_cfg, &base);
    if !c.found.is_empty() {
        return;
    }
    // the real serde_json source, when the document is representable there
    if c.scn.doc.json_representable() {
        let mut scripts = vec![Script::AllC, Script::AllB, c.scn.script.clone()];
        for k in c.stop_positions(base.decisions).into_iter().take(4) {
            scripts.push(Script::CkB(k + 1));
        }
        for script in scripts {
            let mut cfg = c.cfg(script);
            cfg.source = Source::Json;
            let r = c.exec(&cfg, &has_report);
            c.record(conservation_rules(&r), &cfg, &r);
        }
    }
    for k in c.stop_positions(base.decisions) {
        for script in [Script::CkB(k), Script::CkBC(k)] {
            let cfg = c.cfg(script);
            let r = c.exec(&cfg, &has_report);
            c.record(conservation_rules(&r), &cfg, &r);
            if !c.found.is_empty() {
                return;
            }
        }
    }
    let cfg = c.cfg(c.scn.script.clone());
    let r = c.exec(&cfg, &has_report);
    c.record(conservation_rules(&r), &cfg, &r);
}

fn c03(c: &mut Checker) {
    let base_cfg = c.cfg(Script::AllC);
    let base = c.exec(&base_cfg, &has_break);
    if matches!(base.outcome, Outcome::Panic(_)) {
        return; // C12's business
    }
    for k in c.stop_positions(base.decisions) {
        let cfg = c.cfg(Script::CkB(k));
        let r = c.exec(&cfg, &has_break);
        let mut out = vec![];
        rules::h_stop(&r, &mut out);
        rules::h_stop_inside(&r, &c.scn.doc, &mut out);
        rules::h_prefix_and_handover(&base, &r, k, true, &mut out);
        if !c.scn.has_dup {
            rules::h_deliver(&base, &r, &mut out);
        }
        c.record(out, &cfg, &r);
        let cfg = c.cfg(Script::CkBC(k));
        let r = c.exec(&cfg, &has_break);
        let mut out = vec![];
        rules::h_stop(&r, &mut out);
        rules::h_stop_inside(&r, &c.scn.doc, &mut out);
        rules::h_prefix_and_handover(&base, &r, k, false, &mut out);
        if !c.scn.has_dup {
            rules::h_deliver(&base, &r, &mut out);
        }
        c.record(out, &cfg, &r);
        if !c.found.is_empty() {
            return;
        }
    }
    let cfg = c.cfg(Script::AllB);
    let r = c.exec(&cfg, &has_break);
    let mut out = vec![];
    rules::h_stop(&r, &mut out);
    rules::h_first(&base, &r, &mut out);
    c.record(out, &cfg, &r);
    // random (non-monotone) answer scripts: the scenario's own and three derived from it
    let mut scripts = vec![c.scn.script.clone()];
    if let Script::Bits(bits, d) = &c.scn.script {
        let mut rng = Rng::new(simcore::rng::mix(c.scn.seed, 0xC03, c.scn.run_index));
        for p in [150usize, 400, 700] {
            let n = bits.len().max(8);
            scripts.push(Script::Bits((0..n).map(|_| rng.below(1000) < p).collect(), !*d));
        }
    }
    for s in scripts {
        let cfg = c.cfg(s);
        let r = c.exec(&cfg, &has_break);
        let mut out = vec![];
        rules::h_stop(&r, &mut out);
        rules::h_stop_inside(&r, &c.scn.doc, &mut out);
        if !c.scn.has_dup {
            rules::h_deliver(&base, &r, &mut out);
        }
        c.record(out, &cfg, &r);
    }
    // same through the real serde_json source
    if c.scn.doc.json_representable() {
        let mut bcfg = c.cfg(Script::AllC);
        bcfg.source = Source::Json;
        let jbase = c.exec(&bcfg, &has_break);
        let mut cfg = c.cfg(Script::AllB);
        cfg.source = Source::Json;
        let r = c.exec(&cfg, &has_break);
        let mut out = vec![];
        rules::h_stop(&r, &mut out);
        rules::h_first(&jbase, &r, &mut out);
        c.record(out, &cfg, &r);
    }
    // the built-in always-stop error types return exactly the first keep-going report
    if c.found.is_empty() {
        crate::c14::first_report_linkage(c, &base, "H-first");
    }
    if c.found.is_empty() {
        crate::c14::first_report_linkage_json_source(c, "H-first");
    }
}

fn c04(c: &mut Checker) {
    let doc = c.scn.doc.clone();
    let base_cfg = c.cfg(Script::AllC);
    let base = c.exec(&base_cfg, &has_report);
    let mut out = vec![];
    rules::h_loc(&base, &doc, &mut out);
    if model_applies(c.scn) && !c.scn.has_dup && !matches!(base.outcome, Outcome::Panic(_)) {
        let exp = c.model(&doc);
        c.stats.bump("handover_positions_checked", exp.handovers.len() as u64);
        rules::m_handover("M-handover", &exp, &base, &mut out);
        // a user function's error (try_from, validate, ...) reaches the error type at the position
        // of the value it is about; an ancestor would still resolve, so this needs the interpreter
        rules::m_reports("M-handover", &exp, &base, Strict::Full, &|cl| cl == "Foreign", &mut out);
    }
    c.record(out, &base_cfg, &base);
    if !c.found.is_empty() {
        return;
    }
    let mut scripts = vec![Script::AllB, c.scn.script.clone()];
    let ks = c.stop_positions(base.decisions);
    for k in ks.iter().take(6) {
        scripts.push(Script::CkBC(*k));
    }
    // the keep-going run's hand-over positions were just checked one by one (M-handover); under
    // any other answer script a hand-over can only happen at one of those positions
    let base_handover_locs: std::collections::HashSet<simcore::doc::Path> = base
        .events
        .iter()
        .filter_map(|e| match e {
            Event::Merge { loc, .. } => Some(loc.clone()),
            _ => None,
        })
        .collect();
    let check_handover_locs = model_applies(c.scn) && !c.scn.has_dup && !matches!(base.outcome, Outcome::Panic(_));
    for s in scripts {
        let cfg = c.cfg(s);
        let r = c.exec(&cfg, &has_report);
        let mut out = vec![];
        rules::h_loc(&r, &doc, &mut out);
        if check_handover_locs {
            for e in &r.events {
                if let Event::Merge { loc, .. } = e {
                    if !base_handover_locs.contains(loc) {
                        out.push(Violation {
                            rule: "M-handover",
                            msg: format!(
                                "`{}`: no child error is handed over at {} in the keep-going run of the same scenario, so this is not a child's own position",
                                e.render(),
                                simcore::doc::path_str(loc)
                            ),
                        });
                        break;
                    }
                }
            }
        }
        c.record(out, &cfg, &r);
    }
    if doc.json_representable() {
        let mut cfg = c.cfg(Script::AllC);
        cfg.source = Source::Json;
        let r = c.exec(&cfg, &has_report);
        let mut out = vec![];
        rules::h_loc(&r, &doc, &mut out);
        c.record(out, &cfg, &r);
    }
}

fn c12(c: &mut Checker) {
    let any = |_: &Run| true;
    let base_cfg = c.cfg(Script::AllC);
    let base = c.exec(&base_cfg, &any);
    let mut out = vec![];
    rules::h_total(&base, &mut out);
    c.record(out, &base_cfg, &base);
    let mut cfgs: Vec<RunCfg> = vec![c.cfg(Script::AllB), c.cfg(c.scn.script.clone())];
    for k in c.stop_positions(base.decisions) {
        cfgs.push(c.cfg(Script::CkB(k)));
        cfgs.push(c.cfg(Script::CkBC(k)));
    }
    let mut flipped = c.cfg(c.scn.script.clone());
    flipped.swap_remove = !flipped.swap_remove;
    cfgs.push(flipped);
    for party in [ErrParty::JsonError, ErrParty::QueryParamError] {
        let mut cfg = c.cfg(Script::AllC);
        cfg.err = party;
        cfgs.push(cfg);
    }
    if c.scn.doc.json_representable() {
        for (script, party) in [
            (Script::AllC, ErrParty::Sim),
            (Script::AllB, ErrParty::Sim),
            (c.scn.script.clone(), ErrParty::Sim),
            (Script::AllC, ErrParty::JsonError),
        ] {
            let mut cfg = c.cfg(script);
            cfg.source = Source::Json;
            cfg.err = party;
            cfgs.push(cfg);
        }
    }
    for cfg in cfgs {
        let r = c.exec(&cfg, &any);
        let mut out = vec![];
        rules::h_total(&r, &mut out);
        c.record(out, &cfg, &r);
        if !c.found.is_empty() {
            return;
        }
    }
}

/// keep-going run compared with the reference interpreter
fn model_run(c: &mut Checker, source: Source, nontrivial: &dyn Fn(&Run) -> bool) -> Option<(RunCfg, Run, Expect)> {
    if !model_applies(c.scn) {
        return None;
    }
    let mut cfg = c.cfg(Script::AllC);
    cfg.source = source;
    let (doc, exp) = match source {
        Source::Sim => (c.scn.doc.clone(), c.model(&c.scn.doc)),
        Source::Json => {
            if !c.scn.doc.json_representable() {
                return None;
            }
            // serde_json delivers members in its own order: interpret what it will deliver
            let delivered = Doc::from_json(&c.scn.doc.to_json());
            let exp = c.model(&delivered);
            (c.scn.doc.clone(), exp)
        }
    };
    let r = c.exec_doc(&doc, &cfg, nontrivial);
    if matches!(r.outcome, Outcome::Panic(_)) {
        return None;
    }
    Some((cfg, r, exp))
}

fn c02(c: &mut Checker) {
    for source in [Source::Sim, Source::Json] {
        if let Some((cfg, r, exp)) = model_run(c, source, &has_report) {
            let mut out = vec![];
            rules::m_reports("M-reports", &exp, &r, Strict::Full, &all_classes, &mut out);
            rules::m_visits("M-visits", &exp, &r, &mut out);
            // "the final error holds exactly one report for each independent fault": what was
            // reported must also be what is returned
            out.extend(conservation_rules(&r));
            match (&r.outcome, exp.reports.is_empty()) {
                (Outcome::Ok(_), false) => out.push(Violation {
                    rule: "M-reports",
                    msg: format!("the payload has {} independent faults but the call returned Ok", exp.reports.len()),
                }),
                (Outcome::Err { .. }, true) => out.push(Violation {
                    rule: "M-reports",
                    msg: "the payload has no fault but the call returned Err".to_string(),
                }),
                _ => {}
            }
            c.stats.bump("expected_reports", exp.reports.len() as u64);
            if exp.reports.len() >= 2 {
                c.stats.bump("probe_two_or_more_independent_faults", 1);
            }
            c.record(out, &cfg, &r);
        }
    }
}

fn c06(c: &mut Checker) {
    // a fail-fast run first (totality only): whatever a stopped run might leave behind on this
    // thread is then in the history of the keep-going runs that follow in the session
    {
        let mut cfg = c.cfg(Script::AllC);
        cfg.err = ErrParty::JsonError;
        let r = c.exec(&cfg, &|_| true);
        let mut out = vec![];
        rules::h_total(&r, &mut out);
        c.record(out, &cfg, &r);
    }
    for source in [Source::Sim, Source::Json] {
        if let Some((cfg, r, exp)) = model_run(c, source, &|_| true) {
            let mut out = vec![];
            m_value_nodup(c, &exp, &r, &mut out);
            rules::m_reports("M-reports", &exp, &r, Strict::Full, &all_classes, &mut out);
            // "is reported naming that key and makes the call fail": what the container
            // reported must also be in the error it returns
            out.extend(conservation_rules(&r));
            c.record(out, &cfg, &r);
        }
    }
}

fn c07(c: &mut Checker) {
    if let Some((cfg, r, exp)) = model_run(c, Source::Sim, &|_| true) {
        let mut out = vec![];
        m_value_nodup(c, &exp, &r, &mut out);
        // which keys were found / missing / unknown, not the payload details other properties own
        rules::m_reports(
            "M-reports",
            &exp,
            &r,
            Strict::Names,
            &|cl| matches!(cl, "MissingField" | "UnknownKey" | "UnknownValue" | "Any"),
            &mut out,
        );
        // every delivered entry whose key is a field's effective key is read (and no other)
        rules::m_visits("M-visits", &exp, &r, &mut out);
        if !c.scn.has_dup {
            rules::m_decodes("M-decodes", &exp, &r, &mut out);
        }
        out.extend(conservation_rules(&r));
        c.record(out, &cfg, &r);
    }
    // both remove disciplines: renaming must not depend on where the tag sits
    if model_applies(c.scn) {
        let mut cfg = c.cfg(Script::AllC);
        cfg.swap_remove = !cfg.swap_remove;
        let exp = c.model(&c.scn.doc);
        let r = c.exec(&cfg, &|_| true);
        if !matches!(r.outcome, Outcome::Panic(_)) {
            let mut out = vec![];
            m_value_nodup(c, &exp, &r, &mut out);
            c.record(out, &cfg, &r);
        }
    }
}

fn c08(c: &mut Checker) {
    for source in [Source::Sim, Source::Json] {
        if let Some((cfg, r, exp)) = model_run(c, source, &|_| true) {
            let mut out = vec![];
            rules::m_reports(
                "M-reports",
                &exp,
                &r,
                Strict::Full,
                &|cl| matches!(cl, "MissingField" | "Unexpected" | "Foreign"),
                &mut out,
            );
            m_value_nodup(c, &exp, &r, &mut out);
            rules::m_visits("M-visits", &exp, &r, &mut out);
            rules::m_calls_opt("M-calls", &exp, &r, false, c.scn.has_dup, &|s| matches!(s, CallStage::Missing | CallStage::Map), &mut out);
            // "a skipped field never reads the payload": nor does anything else read a member no field owns
            if source == Source::Sim && !c.scn.has_dup {
                rules::m_decodes("M-decodes", &exp, &r, &mut out);
                c.stats.bump("member_decodes_checked", exp.decodes.len() as u64);
            }
            // "is reported missing": the report must reach the caller
            out.extend(conservation_rules(&r));
            let n_missing = exp.reports.iter().filter(|e| matches!(e.class, simcore::model::ExpClass::Missing { .. })).count();
            c.stats.bump("expected_missing_field_reports", n_missing as u64);
            if n_missing > 0 && exp.reports.len() > n_missing {
                c.stats.bump("probe_missing_field_together_with_invalid_sibling", 1);
            }
            c.record(out, &cfg, &r);
        }
    }
}

fn c09(c: &mut Checker) {
    if !model_applies(c.scn) {
        return;
    }
    let root = c.env.cat.programs[c.scn.program].root.clone();
    if let Some((cfg, r, exp)) = model_run(c, Source::Sim, &|_| true) {
        let mut out = vec![];
        rules::m_reports("M-reports", &exp, &r, Strict::Full, &|cl| cl == "UnknownKey" || cl == "Foreign", &mut out);
        rules::m_calls_opt("M-calls", &exp, &r, false, c.scn.has_dup, &|s| s == CallStage::Unknown, &mut out);
        // an unknown member is looked at by name only: its value is never decoded
        if !c.scn.has_dup {
            rules::m_decodes("M-decodes", &exp, &r, &mut out);
        }
        // "is reported": the report must also be in the error the call returns
        out.extend(conservation_rules(&r));
        c.stats.bump("expected_unknown_key_reports", exp.unknown_denied as u64);
        c.record(out, &cfg, &r);
        // "every payload key ... is reported": also when the error type stops the work later on.
        // An unknown key the source has handed out is dealt with before anything else happens.
        if exp.unknown_denied > 0 && !c.scn.has_dup && c.found.is_empty() {
            let mut scripts = vec![c.scn.script.clone()];
            for k in c.stop_positions(r.decisions).into_iter().take(6) {
                scripts.push(Script::CkB(k));
                scripts.push(Script::CkBC(k));
            }
            for sc in scripts {
                let scfg = c.cfg(sc);
                let sr = c.exec(&scfg, &|_| true);
                let mut out = vec![];
                rules::h_deliver(&r, &sr, &mut out);
                c.stats.bump("unknown_key_runs_under_stop_answers", 1);
                c.record(out, &scfg, &sr);
            }
        }
        // X-spurious: where unknown keys are not denied they have no influence whatsoever.
        // Compare with the same document stripped of every member no field reads; positions
        // under a denying container are expected to differ by exactly the UnknownKey reports.
        let stripped = docgen::strip_unknown(&c.env.cat, &root, &c.scn.doc);
        if stripped != c.scn.doc {
            c.stats.bump("x_spurious_pairs", 1);
            let exp_s = c.model(&stripped);
            let r_s = c.exec_doc(&stripped, &cfg, &|_| true);
            let (val, reps) = rules::outcome_summary(&r, false);
            let (val_s, reps_s) = rules::outcome_summary(&r_s, false);
            let drop_unknown = |v: Vec<String>| -> Vec<String> { v.into_iter().filter(|s| !s.starts_with("UnknownKey ")).collect() };
            let reps = drop_unknown(reps);
            let reps_s = drop_unknown(reps_s);
            // value comparison only when neither side fails (denied unknown keys make one side fail)
            let denied = exp.unknown_denied > 0;
            let mut out = vec![];
            // where an unknown key IS denied the two runs legitimately part ways (the container
            // fails, so its map / validate functions do not run): the metamorphic rule is about
            // containers that ignore unknown keys
            if !denied && reps != reps_s {
                out.push(Violation {
                    rule: "X-spurious",
                    msg: format!("reports change when members that no field reads are removed: with them {reps:?}, without them {reps_s:?}"),
                });
            }
            if !denied && !c.scn.has_dup && val != val_s {
                out.push(Violation {
                    rule: "X-spurious",
                    msg: format!("value changes when members that no field reads are removed: with them {val:?}, without them {val_s:?}"),
                });
            }
            // no event may mention a position beneath a spurious member
            let _ = exp_s;
            c.record(out, &cfg, &r);
        }
    }
}

fn c10(c: &mut Checker) {
    for swap in [false, true] {
        if !model_applies(c.scn) {
            return;
        }
        let mut cfg = c.cfg(Script::AllC);
        cfg.swap_remove = swap;
        let exp = c.model(&c.scn.doc);
        let r = c.exec(&cfg, &|_| true);
        if matches!(r.outcome, Outcome::Panic(_)) {
            return;
        }
        let mut out = vec![];
        m_value_nodup(c, &exp, &r, &mut out);
        rules::m_reports("M-reports", &exp, &r, Strict::Full, &all_classes, &mut out);
        out.extend(conservation_rules(&r));
        if exp.reports.iter().any(|e| matches!(e.class, simcore::model::ExpClass::Any)) {
            c.stats.bump("probe_unknown_tag_value", 1);
        }
        c.record(out, &cfg, &r);
    }
}

fn has_call(r: &Run) -> bool {
    r.events.iter().any(|e| matches!(e, Event::Call { .. }))
}

fn c11(c: &mut Checker) {
    if !model_applies(c.scn) {
        return;
    }
    let exp = c.model(&c.scn.doc);
    let base_cfg = c.cfg(Script::AllC);
    let base = c.exec(&base_cfg, &has_call);
    if matches!(base.outcome, Outcome::Panic(_)) {
        return;
    }
    let mut out = vec![];
    rules::m_calls_opt("M-calls", &exp, &base, false, c.scn.has_dup, &|_| true, &mut out);
    m_value_nodup(c, &exp, &base, &mut out);
    rules::m_reports("M-reports", &exp, &base, Strict::Full, &|cl| cl == "Foreign", &mut out);
    rules::h_cb_fail(&base, &mut out);
    out.extend(conservation_rules(&base));
    c.record(out, &base_cfg, &base);
    if !c.found.is_empty() {
        return;
    }
    let mut scripts = vec![Script::AllB, c.scn.script.clone()];
    for k in c.stop_positions(base.decisions) {
        scripts.push(Script::CkB(k));
        scripts.push(Script::CkBC(k));
    }
    for s in scripts {
        let cfg = c.cfg(s);
        let r = c.exec(&cfg, &has_call);
        if matches!(r.outcome, Outcome::Panic(_)) {
            continue;
        }
        let mut out = vec![];
        rules::m_calls_opt("H-calls", &exp, &r, true, c.scn.has_dup, &|_| true, &mut out);
        rules::h_cb_fail(&r, &mut out);
        rules::h_linear(&r, &mut out);
        // a field-level error value must be handed over, never dropped
        for e in &r.events {
            if let Event::Dropped { ty: 1, vid, reports } = e {
                out.push(Violation {
                    rule: "H-linear",
                    msg: format!("field-level error value v{vid} {reports:?} was never handed to the container's error type"),
                });
            }
        }
        c.record(out, &cfg, &r);
        if !c.found.is_empty() {
            return;
        }
    }
}

// --- C15 ---------------------------------------------------------------------------------------

fn count_orders(doc: &Doc) -> Option<u64> {
    fn fact(n: usize) -> u64 {
        (1..=n as u64).product()
    }
    match doc {
        Doc::Seq(v) => {
            let mut p: u64 = 1;
            for x in v {
                p = p.checked_mul(count_orders(x)?)?;
                if p > 10_000 {
                    return None;
                }
            }
            Some(p)
        }
        Doc::Map(m) => {
            if m.len() > 4 {
                return None;
            }
            let mut p = fact(m.len());
            for (_, x) in m {
                p = p.checked_mul(count_orders(x)?)?;
                if p > 10_000 {
                    return None;
                }
            }
            Some(p)
        }
        _ => Some(1),
    }
}

fn nth_perm(n: usize, mut idx: u64) -> Vec<usize> {
    // factorial number system
    let mut items: Vec<usize> = (0..n).collect();
    let mut out = vec![];
    let mut f: Vec<u64> = vec![1; n + 1];
    for i in 1..=n {
        f[i] = f[i - 1] * i as u64;
    }
    for i in (0..n).rev() {
        let q = (idx / f[i]) as usize;
        idx %= f[i];
        out.push(items.remove(q));
    }
    out
}

/// Members with the same key keep their relative order: which occurrence the tag lookup takes
/// and which one is delivered last are not what "member order" is about.
fn keep_duplicates_in_order(p: &mut [usize], m: &[(String, Doc)]) {
    for i in 0..m.len() {
        if m[..i].iter().any(|(k, _)| *k == m[i].0) {
            continue; // group already handled
        }
        let group: Vec<usize> = (0..m.len()).filter(|j| m[*j].0 == m[i].0).collect();
        if group.len() < 2 {
            continue;
        }
        let slots: Vec<usize> = (0..p.len()).filter(|s| group.contains(&p[*s])).collect();
        for (slot, member) in slots.into_iter().zip(group) {
            p[slot] = member;
        }
    }
}

/// apply joint order number `idx` (mixed radix over all objects, in document order)
fn apply_order(doc: &Doc, idx: &mut u64) -> Doc {
    match doc {
        Doc::Seq(v) => Doc::Seq(v.iter().map(|x| apply_order(x, idx)).collect()),
        Doc::Map(m) => {
            let f: u64 = (1..=m.len() as u64).product();
            let mine = *idx % f.max(1);
            *idx /= f.max(1);
            let mut p = nth_perm(m.len(), mine);
            keep_duplicates_in_order(&mut p, m);
            Doc::Map(p.into_iter().map(|i| (m[i].0.clone(), apply_order(&m[i].1, idx))).collect())
        }
        d => d.clone(),
    }
}

fn reorder_keeping_duplicates(doc: &Doc, rng: &mut Rng) -> Doc {
    match doc {
        Doc::Seq(v) => Doc::Seq(v.iter().map(|x| reorder_keeping_duplicates(x, rng)).collect()),
        Doc::Map(m) => {
            let mut p = rng.perm(m.len());
            keep_duplicates_in_order(&mut p, m);
            Doc::Map(p.into_iter().map(|i| (m[i].0.clone(), reorder_keeping_duplicates(&m[i].1, rng))).collect())
        }
        d => d.clone(),
    }
}

fn c15(c: &mut Checker) {
    if !model_applies(c.scn) {
        return;
    }
    // with duplicate keys or two spellings of one map key the VALUE legitimately depends on the
    // order (the later entry wins); which members are examined and what is reported does not
    let value_free = c.scn.has_dup || c.scn.has_collision;
    let summarise = |r: &Run| {
        let (val, reps) = rules::outcome_summary(r, true);
        let val = if value_free { val.map(|_| "Ok(..)".to_string()) } else { val };
        ((val, reps), rules::returned_summary(r), rules::handover_summary(r))
    };
    let cfg0 = c.cfg(Script::AllC);
    let base = c.exec(&cfg0, &|_| true);
    if matches!(base.outcome, Outcome::Panic(_)) {
        return;
    }
    let base_sum = summarise(&base);
    let orders: Vec<Doc> = match count_orders(&c.scn.doc) {
        Some(n) if n <= 200 => {
            c.stats.bump("x_perm_scenarios_with_all_orders", 1);
            (0..n)
                .map(|i| {
                    let mut idx = i;
                    apply_order(&c.scn.doc, &mut idx)
                })
                .collect()
        }
        _ => {
            let mut rng = Rng::new(simcore::rng::mix(c.scn.seed, 0xC15, c.scn.run_index));
            (0..64).map(|_| reorder_keeping_duplicates(&c.scn.doc, &mut rng)).collect()
        }
    };
    let mut n_distinct = 0;
    for d in orders {
        if d != c.scn.doc {
            n_distinct += 1;
        }
        for swap in [false, true] {
            let mut cfg = c.cfg(Script::AllC);
            cfg.swap_remove = swap;
            let r = c.exec_doc(&d, &cfg, &|_| true);
            let sum = summarise(&r);
            if sum != base_sum {
                let mut out = vec![];
                out.push(Violation {
                    rule: "X-perm",
                    msg: format!(
                        "outcome depends on member order: delivered as {} gives value {:?}, reports made {:?}, returned error holding {:?}, hand-overs {:?}; delivered as {} gives value {:?}, reports made {:?}, returned error holding {:?}, hand-overs {:?}",
                        c.scn.doc.render(),
                        base_sum.0 .0,
                        base_sum.0 .1,
                        base_sum.1,
                        base_sum.2,
                        d.render(),
                        sum.0 .0,
                        sum.0 .1,
                        sum.1,
                        sum.2
                    ),
                });
                c.record(out, &cfg, &r);
                return;
            }
        }
    }
    c.stats.bump("x_perm_orders_compared", n_distinct);
}

// ---------------------------------------------------------------------------------------------
// profiles
// ---------------------------------------------------------------------------------------------

pub fn profile(prop: Prop, env: &Env) -> Profile {
    let all: Vec<usize> = (0..env.cat.programs.len()).collect();
    let pick = |f: &dyn Fn(&Features) -> bool| -> Vec<usize> { all.iter().copied().filter(|i| f(&env.feats[*i])).collect() };
    let mut allowed = FaultCfg::all(0);
    let forced = FaultCfg::none();
    let rates = vec![0, 0, 40, 100, 250];
    let mut p = Profile {
        programs: all.clone(),
        allowed: allowed.clone(),
        forced: forced.clone(),
        rates_pm: rates,
        max_leaf_faults: 3,
        max_cb_faults: 2,
        reorder: true,
        allow_special: false,
        broad_pm: 0,
        never: FaultCfg::none(),
    };
    match prop {
        Prop::C01 | Prop::C12 => {
            allowed.collide = true;
            allowed.dup = true;
            allowed.exotic = true;
            allowed.nonfinite = true;
            p.allowed = allowed;
            p.allow_special = true;
        }
        Prop::C03 => {
            allowed.collide = true;
            allowed.dup = true;
            allowed.exotic = true;
            allowed.nonfinite = true;
            p.allowed = allowed;
        }
        Prop::C04 => {
            allowed.exotic = true;
            allowed.nonfinite = true;
            allowed.dup = true;
            allowed.collide = true;
            p.allowed = allowed;
            p.programs = pick(&|f| !f.tag_clash && !f.key_clash);
        }
        Prop::C02 => {
            p.allow_special = true;
            allowed.exotic = true;
            allowed.nonfinite = true;
            allowed.collide = true;
            allowed.dup = true;
            p.allowed = allowed;
        }
        Prop::C06 => {
            allowed.exotic = true;
            allowed.nonfinite = true;
            allowed.collide = true;
            allowed.dup = true;
            p.allowed = allowed;
            p.programs = pick(&|f| !f.named);
            p.rates_pm = vec![0, 0, 60, 150, 300];
        }
        Prop::C07 => {
            p.broad_pm = 300;
            p.programs = pick(&|f| f.strukt || f.tagged || f.unit_enum);
            let mut a = FaultCfg::none();
            a.spurious = true;
            p.forced = a.clone();
            a.dup = true;
            p.allowed = a;
            p.rates_pm = vec![0, 200, 500, 900];
            p.max_leaf_faults = 0;
            p.max_cb_faults = 1;
        }
        Prop::C08 => {
            p.broad_pm = 300;
            p.programs = pick(&|f| f.strukt || f.tagged);
            let mut a = FaultCfg::none();
            a.drop = true;
            a.null = true;
            a.corrupt = true;
            a.dup = true;
            a.collide = true;
            p.allowed = a;
            p.rates_pm = vec![0, 60, 150, 300];
            p.max_cb_faults = 1;
        }
        Prop::C09 => {
            p.broad_pm = 300;
            p.programs = pick(&|f| f.strukt || f.tagged);
            let mut a = FaultCfg::none();
            a.spurious = true;
            a.drop = true;
            a.dup = true;
            p.allowed = a;
            let mut f = FaultCfg::none();
            f.spurious = true;
            p.forced = f;
            p.rates_pm = vec![200, 500, 900];
            p.max_leaf_faults = 1;
            p.max_cb_faults = 0;
        }
        Prop::C10 => {
            p.broad_pm = 300;
            p.programs = pick(&|f| f.tagged || f.unit_enum);
            let mut a = FaultCfg::none();
            a.tag = true;
            a.spurious = true;
            a.drop = true;
            a.dup = true;
            p.allowed = a;
            let mut f = FaultCfg::none();
            f.tag = true;
            p.forced = f;
            p.rates_pm = vec![0, 150, 400, 800];
            p.max_leaf_faults = 1;
            p.max_cb_faults = 0;
        }
        Prop::C11 => {
            allowed.dup = true;
            allowed.collide = true;
            allowed.nonfinite = true;
            p.allowed = allowed;
            p.programs = pick(&|f| f.conv || f.validate || f.map_fn || f.error_b);
            p.rates_pm = vec![0, 0, 30, 80];
            p.max_cb_faults = 2;
        }
        Prop::C14 => {
            p.never.dup = true;
            allowed.nonfinite = true;
            p.allowed = allowed;
            p.rates_pm = vec![40, 100, 250];
        }
        Prop::C15 => {
            allowed.nonfinite = true;
            allowed.dup = true;
            allowed.collide = true;
            p.allowed = allowed;
            p.programs = pick(&|f| f.named || f.map_target || f.json);
            p.rates_pm = vec![0, 40, 100, 250];
        }
    }
    p
}
