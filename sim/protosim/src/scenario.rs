//! A scenario is everything one simulated check needs besides the code: program, delivered
//! document (member order = delivery order), fault sets, remove discipline, and the random
//! answer script. It is derived from one integer, and written out explicitly in replay files.

use crate::history::Script;
use simcore::desc::{Catalogue, Features};
use simcore::doc::{path_from_json, path_to_json, Doc, Path};
use simcore::docgen::{self, FaultCfg, FaultCounts, GenCfg, Mutator};
use simcore::model::{CallStage, Model};
use simcore::rng::Rng;

#[derive(Clone, Debug)]
pub struct Scenario {
    pub program: usize,
    pub program_name: String,
    pub doc: Doc,
    pub leaf_faults: Vec<Path>,
    pub cb_faults: Vec<(u32, u64)>,
    pub swap_remove: bool,
    /// the random answer script of this scenario (besides the enumerated ones)
    pub script: Script,
    /// seed the scenario was derived from (information only; replay does not use it)
    pub seed: u64,
    pub run_index: u64,
    /// hostile source behaviour present (duplicates / exotic values): model rules do not apply
    pub has_dup: bool,
    pub has_exotic: bool,
    pub has_nonfinite: bool,
    /// two spellings of one map key were injected: which one ends up in the value depends on the
    /// delivery order (later wins), so values are not compared across orders
    pub has_collision: bool,
    pub src_faults: FaultCounts,
    /// label of the special shape, if any ("deep128", "long10000")
    pub special: Option<String>,
}

impl Scenario {
    pub fn to_json(&self) -> serde_json::Value {
        serde_json::json!({
            "program": self.program,
            "program_name": self.program_name,
            "doc": self.doc.to_replay(),
            "doc_rendered": self.doc.render(),
            "leaf_faults": self.leaf_faults.iter().map(|p| path_to_json(p)).collect::<Vec<_>>(),
            "cb_faults": self.cb_faults.iter().map(|(f, h)| serde_json::json!([f, h.to_string()])).collect::<Vec<_>>(),
            "swap_remove": self.swap_remove,
            "script": self.script.to_json(),
            "seed": self.seed.to_string(),
            "run_index": self.run_index,
            "special": self.special,
            "has_collision": self.has_collision,
        })
    }

    pub fn from_json(j: &serde_json::Value) -> Option<Scenario> {
        let doc = Doc::from_replay(j.get("doc")?)?;
        let mut cb = vec![];
        for e in j.get("cb_faults")?.as_array()? {
            let e = e.as_array()?;
            cb.push((e.first()?.as_u64()? as u32, e.get(1)?.as_str()?.parse::<u64>().ok()?));
        }
        Some(Scenario {
            program: j.get("program")?.as_u64()? as usize,
            program_name: j.get("program_name")?.as_str()?.to_string(),
            has_dup: doc.has_dup_keys(),
            has_exotic: has_exotic(&doc),
            has_nonfinite: has_nonfinite(&doc),
            has_collision: j.get("has_collision").and_then(|b| b.as_bool()).unwrap_or(false),
            doc,
            leaf_faults: j
                .get("leaf_faults")?
                .as_array()?
                .iter()
                .map(path_from_json)
                .collect::<Option<Vec<_>>>()?,
            cb_faults: cb,
            swap_remove: j.get("swap_remove")?.as_bool()?,
            script: Script::from_json(j.get("script")?)?,
            seed: j.get("seed")?.as_str()?.parse().ok()?,
            run_index: j.get("run_index")?.as_u64()?,
            src_faults: FaultCounts::default(),
            special: j.get("special").and_then(|s| s.as_str()).map(|s| s.to_string()),
        })
    }
}

pub fn has_nonfinite(d: &Doc) -> bool {
    match d {
        Doc::Float(f) => !f.is_finite(),
        Doc::Seq(v) => v.iter().any(has_nonfinite),
        Doc::Map(m) => m.iter().any(|(_, v)| has_nonfinite(v)),
        _ => false,
    }
}

/// values whose semantics the reference interpreter does not model: NegativeInteger(n >= 0)
pub fn has_exotic(d: &Doc) -> bool {
    match d {
        Doc::Neg(n) => *n >= 0,
        Doc::Seq(v) => v.iter().any(has_exotic),
        Doc::Map(m) => m.iter().any(|(_, v)| has_exotic(v)),
        _ => false,
    }
}

/// How scenarios are drawn for one property.
#[derive(Clone)]
pub struct Profile {
    /// eligible programs
    pub programs: Vec<usize>,
    /// fault kinds that may be enabled at all (a run enables a random subset: swarm style)
    pub allowed: FaultCfg,
    /// fault kinds switched on in every faulty run of this profile
    pub forced: FaultCfg,
    /// candidate per-node fault rates (per thousand); one is drawn per run
    pub rates_pm: Vec<usize>,
    pub max_leaf_faults: usize,
    pub max_cb_faults: usize,
    pub reorder: bool,
    pub allow_special: bool,
    /// share (per thousand) of scenarios drawn with the broad fault mix instead of the
    /// property's focused one: every fault kind the oracles of the property tolerate, moderate
    /// rates, leaf and callback faults
    pub broad_pm: usize,
    /// fault kinds the property's oracles do not tolerate even in the broad mix
    pub never: FaultCfg,
}

fn or_cfg(a: &FaultCfg, b: &FaultCfg, on: &dyn Fn(bool, bool) -> bool) -> FaultCfg {
    FaultCfg {
        rate_pm: a.rate_pm,
        drop: on(a.drop, b.drop),
        null: on(a.null, b.null),
        corrupt: on(a.corrupt, b.corrupt),
        range: on(a.range, b.range),
        arity: on(a.arity, b.arity),
        badkey: on(a.badkey, b.badkey),
        spurious: on(a.spurious, b.spurious),
        tag: on(a.tag, b.tag),
        dup: on(a.dup, b.dup),
        exotic: on(a.exotic, b.exotic),
        nonfinite: on(a.nonfinite, b.nonfinite),
        collide: on(a.collide, b.collide),
    }
}

pub fn generate(
    cat: &Catalogue,
    _feats: &[Features],
    profile: &Profile,
    seed: u64,
    run_index: u64,
) -> Scenario {
    let mut rng = Rng::new(simcore::rng::mix(seed, 0x5CE4, run_index));
    // --- swarm configuration, drawn first and in a fixed order --------------------------------
    let broad = rng.below(1000) < profile.broad_pm;
    let broad_profile;
    let profile = if broad {
        let mut allowed = FaultCfg::all(0);
        allowed.dup = !profile.never.dup;
        allowed.collide = !profile.never.collide;
        allowed.nonfinite = !profile.never.nonfinite;
        allowed.exotic = profile.allowed.exotic;
        broad_profile = Profile {
            programs: profile.programs.clone(),
            allowed,
            forced: FaultCfg::none(),
            rates_pm: vec![0, 40, 100, 250],
            max_leaf_faults: 3,
            max_cb_faults: 2,
            reorder: profile.reorder,
            allow_special: profile.allow_special,
            broad_pm: 0,
            never: profile.never.clone(),
        };
        &broad_profile
    } else {
        profile
    };
    let program = *rng.pick(&profile.programs);
    let max_len = *rng.pick(&[1usize, 2, 2, 3, 4]);
    let rate = *rng.pick(&profile.rates_pm);
    let coin = |rng: &mut Rng| rng.chance(3, 5);
    let swarm = FaultCfg {
        rate_pm: rate,
        drop: coin(&mut rng),
        null: coin(&mut rng),
        corrupt: coin(&mut rng),
        range: coin(&mut rng),
        arity: coin(&mut rng),
        badkey: coin(&mut rng),
        spurious: coin(&mut rng),
        tag: coin(&mut rng),
        dup: rng.chance(1, 3),
        exotic: rng.chance(1, 3),
        nonfinite: rng.chance(1, 3),
        collide: rng.chance(1, 2),
    };
    let mut cfg = or_cfg(&swarm, &profile.allowed, &|a, b| a && b);
    cfg = or_cfg(&cfg, &profile.forced, &|a, b| a || b);
    let n_leaf = (*rng.pick(&[0usize, 0, 0, 1, 1, 2, 3])).min(profile.max_leaf_faults);
    let n_cb = (*rng.pick(&[0usize, 0, 1, 1, 2])).min(profile.max_cb_faults);
    let do_reorder = profile.reorder && rng.chance(3, 5);
    let swap_remove = rng.chance(1, 2);
    let brk_pm = *rng.pick(&[50usize, 200, 500]);
    let script_len = rng.below(25);
    let script_default = rng.chance(1, 2);
    let special_roll = rng.below(400);

    // --- the document ---------------------------------------------------------------------------
    let root = &cat.programs[program].root;
    let mut special = None;
    let mut doc = docgen::gen_valid(cat, root, &mut rng, &GenCfg { max_len, depth: 4 });
    if profile.allow_special && special_roll < 4 {
        let name = cat.programs[program].name.as_str();
        match name {
            "struct_recursive" => {
                doc = docgen::deep_chain(126, Doc::Int(7));
                special = Some("deep128".to_string());
            }
            "struct_tree" => {
                // 70 levels of kids[0]: 140 location components
                let mut d = Doc::Map(vec![("value".to_string(), Doc::Int(7)), ("kids".to_string(), Doc::Seq(vec![]))]);
                for _ in 0..70 {
                    d = Doc::Map(vec![("value".to_string(), Doc::Int(1)), ("kids".to_string(), Doc::Seq(vec![d]))]);
                }
                doc = d;
                special = Some("deep128".to_string());
            }
            "json" | "probe" => {
                doc = docgen::deep_seq(127, Doc::Int(7));
                special = Some("deep128".to_string());
            }
            "vec_u8" => {
                doc = Doc::Seq((0..10_000u64).map(|i| Doc::Int(i % 300)).collect());
                special = Some("long10000".to_string());
            }
            "vec_probe" => {
                doc = Doc::Seq((0..10_000u64).map(Doc::Int).collect());
                special = Some("long10000".to_string());
            }
            _ => {}
        }
    }
    let mut m = Mutator { cat, cfg, counts: FaultCounts::default() };
    if special.is_none() {
        m.mutate(root, &mut doc, &mut rng);
    }
    let src_faults = m.counts.clone();
    if do_reorder {
        docgen::reorder(&mut doc, &mut rng);
    }
    let has_dup = doc.has_dup_keys();
    let has_exotic = has_exotic(&doc);
    let has_nonfinite = has_nonfinite(&doc);

    // --- leaf and callback faults: chosen among what the reference interpreter says is reached --
    let mut leaf_faults: Vec<Path> = vec![];
    let mut cb_faults: Vec<(u32, u64)> = vec![];
    if special.is_none() {
        let exp = Model { cat, leaf_faults: &[], cb_faults: &[] }.run(root, &doc);
        let mut positions: Vec<Path> = exp.visits.iter().map(|v| v.1.clone()).collect();
        positions.sort();
        positions.dedup();
        for _ in 0..n_leaf {
            if positions.is_empty() {
                break;
            }
            let i = rng.below(positions.len());
            leaf_faults.push(positions.swap_remove(i));
        }
        let exp2 = Model { cat, leaf_faults: &leaf_faults, cb_faults: &[] }.run(root, &doc);
        let mut cands: Vec<(u32, u64)> = exp2
            .calls
            .iter()
            .filter(|c| matches!(c.stage, CallStage::TryFrom | CallStage::WrapTryFrom | CallStage::Validate))
            .filter_map(|c| c.arg.as_ref().map(|a| (c.fn_id, a.hash())))
            .collect();
        cands.sort();
        cands.dedup();
        // with duplicate keys no property says which occurrence ends up in the value, and a
        // callback's failure is a function of the value it is given: no callback faults then
        let n_cb = if has_dup || src_faults.collide > 0 { 0 } else { n_cb };
        for _ in 0..n_cb {
            if cands.is_empty() {
                break;
            }
            let i = rng.below(cands.len());
            cb_faults.push(cands.swap_remove(i));
        }
    }
    let bits: Vec<bool> = (0..script_len).map(|_| rng.below(1000) < brk_pm).collect();
    Scenario {
        program,
        program_name: cat.programs[program].name.clone(),
        doc,
        leaf_faults,
        cb_faults,
        swap_remove,
        script: Script::Bits(bits, script_default),
        seed,
        run_index,
        has_dup,
        has_exotic,
        has_nonfinite,
        has_collision: src_faults.collide > 0,
        src_faults,
        special,
    }
}
