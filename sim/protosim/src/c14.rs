//! The built-in error types as the error-type party. Two checks:
//! * linkage (`H-first`): with `JsonError` / `QueryParamError` swapped in for the scripted error
//!   type on the same scenario, the message equals what that same type renders for report #1 of
//!   the keep-going run;
//! * parse-back (`M-parseback`): the message is parsed independently of the renderer and every
//!   part of it is compared with the recorded report and with the document the source holds.

use crate::checks::Checker;
use crate::history::{Event, KindSnap, Outcome, Script};
use crate::parties::{kind_to_deserr, SimSeq, SimValue};
use crate::rules::Violation;
use crate::runner::{ErrParty, Run};
use deserr::errors::{JsonError, QueryParamError};
use deserr::{take_cf_content, DeserializeError, ErrorKind, IntoValue, ValueKind, ValuePointerRef};
use simcore::doc::{path_str, Doc, Path, Step};

fn with_loc<R>(path: &[Step], prev: &ValuePointerRef, f: &mut dyn FnMut(ValuePointerRef) -> R) -> R {
    match path.split_first() {
        None => f(*prev),
        Some((Step::Key(k), rest)) => {
            let next = prev.push_key(k);
            with_loc(rest, &next, f)
        }
        Some((Step::Index(i), rest)) => {
            let next = prev.push_index(*i);
            with_loc(rest, &next, f)
        }
    }
}

/// What the recorded first report is: an `ErrorKind` made through `error`, or a user error
/// handed to `merge` (which the built-in types turn into `Unexpected { msg: to_string() }`).
#[derive(Clone, Debug)]
pub enum First {
    Kind(KindSnap),
    Foreign(String),
}

/// The first thing handed to the container's error type (type 0). Inside a field that carries
/// `error = SimErrB` the reports go to that field's own error type; what the container's error
/// type receives is the hand-over of the field's error, a foreign error to it, which the built-in
/// types render through `Display` at the hand-over location.
pub fn first_report(events: &[Event]) -> Option<(First, Path)> {
    for e in events {
        match e {
            Event::Report { ty: 0, kind, loc, .. } => return Some((First::Kind(kind.clone()), loc.clone())),
            Event::Foreign { ty: 0, token, loc, .. } => return Some((First::Foreign(token.clone()), loc.clone())),
            Event::Merge { ty: 0, other, other_ty: 1, other_reports, loc, .. } => {
                return Some((First::Foreign(format!("SimErr<1>(v{other} {other_reports:?})")), loc.clone()))
            }
            _ => {}
        }
    }
    None
}

fn render_with<E: DeserializeError + std::fmt::Display>(first: &First, loc: &Path) -> String {
    let origin = ValuePointerRef::Origin;
    with_loc(loc, &origin, &mut |l| {
        let e: E = match first {
            First::Foreign(token) => {
                take_cf_content(E::error::<SimValue>(None, ErrorKind::Unexpected { msg: crate::parties::user_shown(token) }, l))
            }
            First::Kind(k) => match k {
                KindSnap::IncorrectValueKind { actual, accepted } => {
                    let acc: Vec<ValueKind> = accepted.iter().map(|k| kind_to_deserr(*k)).collect();
                    take_cf_content(E::error::<SimValue>(
                        None,
                        ErrorKind::IncorrectValueKind { actual: SimValue::detached(actual.clone()).into_value(), accepted: &acc },
                        l,
                    ))
                }
                KindSnap::MissingField { field } => {
                    take_cf_content(E::error::<SimValue>(None, ErrorKind::MissingField { field }, l))
                }
                KindSnap::UnknownKey { key, accepted } => {
                    let acc: Vec<&str> = accepted.iter().map(|s| s.as_str()).collect();
                    take_cf_content(E::error::<SimValue>(None, ErrorKind::UnknownKey { key, accepted: &acc }, l))
                }
                KindSnap::UnknownValue { value, accepted } => {
                    let acc: Vec<&str> = accepted.iter().map(|s| s.as_str()).collect();
                    take_cf_content(E::error::<SimValue>(None, ErrorKind::UnknownValue { value, accepted: &acc }, l))
                }
                KindSnap::BadSequenceLen { actual, expected } => take_cf_content(E::error::<SimValue>(
                    None,
                    ErrorKind::BadSequenceLen { actual: SimSeq::detached(actual.clone()), expected: *expected },
                    l,
                )),
                KindSnap::Unexpected { msg } => {
                    take_cf_content(E::error::<SimValue>(None, ErrorKind::Unexpected { msg: msg.clone() }, l))
                }
            },
        };
        e.to_string()
    })
}

/// `base` is the keep-going run of the scenario with the scripted error type.
pub fn first_report_linkage(c: &mut Checker, base: &Run, rule: &'static str) {
    if matches!(base.outcome, Outcome::Panic(_)) {
        return;
    }
    let first = first_report(&base.events);
    for party in [ErrParty::JsonError, ErrParty::QueryParamError] {
        let mut cfg = c.cfg(Script::AllC);
        cfg.err = party;
        let r = c.exec(&cfg, &|r| matches!(r.outcome, Outcome::ErrMsg(_)));
        let mut out = vec![];
        match (&first, &r.outcome, &base.outcome) {
            (None, Outcome::Ok(v), Outcome::Ok(b)) => {
                if v != b {
                    out.push(Violation {
                        rule,
                        msg: format!("{party:?} run succeeded with {} but the scripted run with {}", v.render(), b.render()),
                    });
                }
            }
            (Some((f, loc)), Outcome::ErrMsg(m), _) => {
                let expect = match party {
                    ErrParty::JsonError => render_with::<JsonError>(f, loc),
                    _ => render_with::<QueryParamError>(f, loc),
                };
                c.stats.bump("first_report_linkage_checked", 1);
                if *m != expect {
                    out.push(Violation {
                        rule,
                        msg: format!(
                            "{party:?} returned {m:?} but the first report of the keep-going run is {f:?} at {} which it renders as {expect:?}",
                            path_str(loc)
                        ),
                    });
                }
            }
            (_, Outcome::Panic(_), _) => {}
            (f, o, _) => out.push(Violation {
                rule,
                msg: format!("{party:?} run ended with {} but the keep-going run's first report is {f:?}", o.render()),
            }),
        }
        c.record(out, &cfg, &r);
    }
}

/// the production pairing: serde_json::Value as the source and JsonError as the error type
pub fn first_report_linkage_json_source(c: &mut Checker, rule: &'static str) {
    if !c.scn.doc.json_representable() {
        return;
    }
    let mut bcfg = c.cfg(Script::AllC);
    bcfg.source = crate::runner::Source::Json;
    let base = c.exec(&bcfg, &|_| false);
    if matches!(base.outcome, Outcome::Panic(_)) {
        return;
    }
    let first = first_report(&base.events);
    let mut cfg = c.cfg(Script::AllC);
    cfg.source = crate::runner::Source::Json;
    cfg.err = ErrParty::JsonError;
    let r = c.exec(&cfg, &|r| matches!(r.outcome, Outcome::ErrMsg(_)));
    let mut out = vec![];
    match (&first, &r.outcome, &base.outcome) {
        (None, Outcome::Ok(v), Outcome::Ok(b)) => {
            if v != b {
                out.push(Violation { rule, msg: format!("JsonError over serde_json succeeded with {} but the scripted run with {}", v.render(), b.render()) });
            }
        }
        (Some((f, loc)), Outcome::ErrMsg(m), _) => {
            let expect = render_with::<JsonError>(f, loc);
            c.stats.bump("first_report_linkage_checked_json_source", 1);
            if *m != expect {
                out.push(Violation {
                    rule,
                    msg: format!(
                        "JsonError over the serde_json source returned {m:?} but the first report of the keep-going run over the same source is {f:?} at {} which it renders as {expect:?}",
                        path_str(loc)
                    ),
                });
            }
        }
        (_, Outcome::Panic(_), _) => {}
        (f, o, _) => out.push(Violation { rule, msg: format!("JsonError over serde_json ended with {} but the keep-going run's first report is {f:?}", o.render()) }),
    }
    c.record(out, &cfg, &r);
}

pub fn c14(c: &mut Checker) {
    if c.scn.has_dup {
        return;
    }
    let base_cfg = c.cfg(Script::AllC);
    let base = c.exec(&base_cfg, &|r| !matches!(r.outcome, Outcome::Ok(_)));
    first_report_linkage(c, &base, "H-first");
    if !c.found.is_empty() {
        return;
    }
    // the linkage above compares the message with the report the code made; that this report is
    // the right one for the payload (the expected length is the target's arity, the accepted
    // list is the target's) is what the reference interpreter says
    if crate::checks::model_applies(c.scn) && !matches!(base.outcome, Outcome::Panic(_)) {
        let exp = c.model(&c.scn.doc);
        let mut out = vec![];
        if crate::rules::m_first("M-first", &exp, &base, &mut out) {
            c.stats.bump("first_report_checked_against_reference_interpreter", 1);
        }
        c.record(out, &base_cfg, &base);
        if !c.found.is_empty() {
            return;
        }
    }
    // where a field has its own error type, the place at which its error is handed to the
    // container's error type is the place the built-in types print: it must be the field's own
    // position (the linkage above compares two runs of the same code and cannot see this)
    if c.env.feats[c.scn.program].error_b
        && crate::checks::model_applies(c.scn)
        && !matches!(base.outcome, Outcome::Panic(_))
    {
        let exp = c.model(&c.scn.doc);
        let mut out = vec![];
        crate::rules::m_handover("M-handover", &exp, &base, &mut out);
        c.stats.bump("field_error_type_handover_positions_checked", exp.handovers.len() as u64);
        c.record(out, &base_cfg, &base);
        if !c.found.is_empty() {
            return;
        }
    }
    first_report_linkage_json_source(c, "H-first");
    if !c.found.is_empty() {
        return;
    }
    crate::parseback::check(c, &base);
    // and once more with serde_json::Value as the source: what it hands over is what the message
    // must be about (an integer above i64::MAX is an integer there too)
    if c.found.is_empty() && c.scn.doc.json_representable() {
        let mut bcfg = c.cfg(Script::AllC);
        bcfg.source = crate::runner::Source::Json;
        let jbase = c.exec(&bcfg, &|_| false);
        if !matches!(jbase.outcome, Outcome::Panic(_)) {
            crate::parseback::check_source(c, &jbase, crate::runner::Source::Json);
        }
    }
}

#[allow(dead_code)]
fn unused(_: &Doc) {}
