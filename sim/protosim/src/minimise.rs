//! Shrinks a failing scenario while the same (property, rule) still fails. Every candidate is
//! one call of `checks::check`, so a few thousand attempts are cheap.

use crate::checks::{check_isolated, Env, Prop, Stats};
use crate::history::Script;
use crate::scenario::Scenario;
use simcore::doc::{Doc, Path, Step};
use simcore::docgen::all_paths;

fn still_fails(prop: Prop, env: &Env, scn: &Scenario, rule: &str) -> bool {
    let mut st = Stats::default();
    check_isolated(prop, env, scn, &mut st).iter().any(|f| f.rule == rule)
}

fn remove_at(doc: &Doc, path: &Path) -> Option<Doc> {
    let (last, parent) = path.split_last()?;
    let mut d = doc.clone();
    let p = d.resolve_mut(parent)?;
    match (last, p) {
        (Step::Index(i), Doc::Seq(v)) if *i < v.len() => {
            v.remove(*i);
        }
        (Step::Key(k), Doc::Map(m)) => {
            let pos = m.iter().position(|(k2, _)| k2 == k)?;
            m.remove(pos);
        }
        _ => return None,
    }
    Some(d)
}

fn replace_at(doc: &Doc, path: &Path, with: Doc) -> Option<Doc> {
    let mut d = doc.clone();
    let p = d.resolve_mut(path)?;
    if *p == with {
        return None;
    }
    *p = with;
    Some(d)
}

fn refresh(s: &mut Scenario) {
    s.has_dup = s.doc.has_dup_keys();
    s.has_exotic = crate::scenario::has_exotic(&s.doc);
    s.has_nonfinite = crate::scenario::has_nonfinite(&s.doc);
}

pub fn minimise(prop: Prop, env: &Env, scn: &Scenario, rule: &str) -> (Scenario, usize) {
    let mut best = scn.clone();
    let mut attempts = 0usize;
    let budget = 3000usize;
    let mut progress = true;
    while progress && attempts < budget {
        progress = false;
        // 1. fewer faults
        for i in (0..best.leaf_faults.len()).rev() {
            let mut c = best.clone();
            c.leaf_faults.remove(i);
            attempts += 1;
            if still_fails(prop, env, &c, rule) {
                best = c;
                progress = true;
            }
        }
        for i in (0..best.cb_faults.len()).rev() {
            let mut c = best.clone();
            c.cb_faults.remove(i);
            attempts += 1;
            if still_fails(prop, env, &c, rule) {
                best = c;
                progress = true;
            }
        }
        // 2. simpler answers
        if best.script != Script::AllC {
            let mut c = best.clone();
            c.script = Script::AllC;
            attempts += 1;
            if still_fails(prop, env, &c, rule) {
                best = c;
                progress = true;
            } else if let Script::Bits(bits, d) = best.script.clone() {
                for i in (0..bits.len()).rev() {
                    if bits[i] {
                        let mut b2 = bits.clone();
                        b2[i] = false;
                        let mut c = best.clone();
                        c.script = Script::Bits(b2, d);
                        attempts += 1;
                        if still_fails(prop, env, &c, rule) {
                            best = c;
                            progress = true;
                            break;
                        }
                    }
                }
            }
        }
        if best.swap_remove {
            let mut c = best.clone();
            c.swap_remove = false;
            attempts += 1;
            if still_fails(prop, env, &c, rule) {
                best = c;
                progress = true;
            }
        }
        // 3. smaller document: delete members / elements, deepest first; then simplify subtrees
        let mut paths = all_paths(&best.doc);
        paths.sort_by_key(|p| std::cmp::Reverse(p.len()));
        for p in &paths {
            if attempts >= budget {
                break;
            }
            if p.is_empty() {
                continue;
            }
            if let Some(d) = remove_at(&best.doc, p) {
                let mut c = best.clone();
                c.doc = d;
                refresh(&mut c);
                attempts += 1;
                if still_fails(prop, env, &c, rule) {
                    best = c;
                    progress = true;
                }
            }
        }
        let mut paths = all_paths(&best.doc);
        paths.sort_by_key(|p| p.len());
        for p in &paths {
            if attempts >= budget {
                break;
            }
            let cur = match best.doc.resolve(p) {
                Some(d) => d.clone(),
                None => continue,
            };
            let simpler: Vec<Doc> = match &cur {
                Doc::Seq(v) if !v.is_empty() => vec![Doc::Seq(vec![]), Doc::Null],
                Doc::Map(m) if !m.is_empty() => vec![Doc::Map(vec![]), Doc::Null],
                Doc::Str(s) if !s.is_empty() && s != "a" => vec![Doc::Str("a".into())],
                Doc::Int(x) if *x > 1 => vec![Doc::Int(1)],
                Doc::Neg(x) if *x != -1 => vec![Doc::Neg(-1)],
                Doc::Float(x) if *x != 0.5 => vec![Doc::Float(0.5)],
                _ => vec![],
            };
            for s in simpler {
                if let Some(d) = replace_at(&best.doc, p, s) {
                    let mut c = best.clone();
                    c.doc = d;
                    refresh(&mut c);
                    attempts += 1;
                    if still_fails(prop, env, &c, rule) {
                        best = c;
                        progress = true;
                        break;
                    }
                }
            }
        }
    }
    (best, attempts)
}
