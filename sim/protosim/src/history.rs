//! The recorded history of one simulated call, and the per-run context every simulated party
//! consults (answer script, fault sets, remove discipline). Thread-local, append-only; logging
//! draws no random number and reads no clock.

use simcore::doc::{path_str, Doc, Kind, Path, Step};
use simcore::mval::MVal;
use simcore::rng::Fnv;
use std::cell::RefCell;

#[derive(Clone, Debug, PartialEq)]
pub enum Script {
    /// C^ω
    AllC,
    /// B^ω
    AllB,
    /// C^k B^ω
    CkB(usize),
    /// C^k B C^ω
    CkBC(usize),
    /// explicit answers (true = Break), then `default` forever
    Bits(Vec<bool>, bool),
}

impl Script {
    /// answer to decision number i (0-based): true = Break
    pub fn answer(&self, i: usize) -> bool {
        match self {
            Script::AllC => false,
            Script::AllB => true,
            Script::CkB(k) => i >= *k,
            Script::CkBC(k) => i == *k,
            Script::Bits(b, d) => b.get(i).copied().unwrap_or(*d),
        }
    }
    pub fn is_keep_going(&self) -> bool {
        match self {
            Script::AllC => true,
            Script::Bits(b, d) => !*d && b.iter().all(|x| !*x),
            _ => false,
        }
    }
    pub fn to_json(&self) -> serde_json::Value {
        use serde_json::json;
        match self {
            Script::AllC => json!({"kind": "C*"}),
            Script::AllB => json!({"kind": "B*"}),
            Script::CkB(k) => json!({"kind": "C^k B*", "k": k}),
            Script::CkBC(k) => json!({"kind": "C^k B C*", "k": k}),
            Script::Bits(b, d) => json!({"kind": "bits", "bits": b.iter().map(|x| if *x {"B"} else {"C"}).collect::<String>(), "then": if *d {"B"} else {"C"}}),
        }
    }
    pub fn from_json(j: &serde_json::Value) -> Option<Script> {
        let kind = j.get("kind")?.as_str()?;
        Some(match kind {
            "C*" => Script::AllC,
            "B*" => Script::AllB,
            "C^k B*" => Script::CkB(j.get("k")?.as_u64()? as usize),
            "C^k B C*" => Script::CkBC(j.get("k")?.as_u64()? as usize),
            "bits" => Script::Bits(
                j.get("bits")?.as_str()?.chars().map(|c| c == 'B').collect(),
                j.get("then")?.as_str()? == "B",
            ),
            _ => return None,
        })
    }
}

#[derive(Clone, Debug, PartialEq)]
pub enum KindSnap {
    IncorrectValueKind { actual: Doc, accepted: Vec<Kind> },
    MissingField { field: String },
    UnknownKey { key: String, accepted: Vec<String> },
    UnknownValue { value: String, accepted: Vec<String> },
    BadSequenceLen { actual: Vec<Doc>, expected: usize },
    Unexpected { msg: String },
}

impl KindSnap {
    pub fn class(&self) -> &'static str {
        match self {
            KindSnap::IncorrectValueKind { .. } => "IncorrectValueKind",
            KindSnap::MissingField { .. } => "MissingField",
            KindSnap::UnknownKey { .. } => "UnknownKey",
            KindSnap::UnknownValue { .. } => "UnknownValue",
            KindSnap::BadSequenceLen { .. } => "BadSequenceLen",
            KindSnap::Unexpected { .. } => "Unexpected",
        }
    }
    pub fn render(&self) -> String {
        match self {
            KindSnap::IncorrectValueKind { actual, accepted } => {
                format!("IncorrectValueKind{{actual:{},accepted:{:?}}}", actual.sorted().render(), accepted)
            }
            KindSnap::MissingField { field } => format!("MissingField{{{field:?}}}"),
            KindSnap::UnknownKey { key, accepted } => format!("UnknownKey{{{key:?},accepted:{accepted:?}}}"),
            KindSnap::UnknownValue { value, accepted } => format!("UnknownValue{{{value:?},accepted:{accepted:?}}}"),
            KindSnap::BadSequenceLen { actual, expected } => format!(
                "BadSequenceLen{{actual:{},expected:{expected}}}",
                Doc::Seq(actual.clone()).sorted().render()
            ),
            KindSnap::Unexpected { msg } => format!("Unexpected{{{msg:?}}}"),
        }
    }
}

#[derive(Clone, Copy, Debug, PartialEq, Eq)]
pub enum Stage {
    From,
    TryFrom,
    Map,
    Validate,
    Missing,
    Unknown,
    WrapFrom,
    WrapTryFrom,
}

#[derive(Clone, Debug, PartialEq)]
pub enum Event {
    /// a Probe leaf was asked to deserialize the value with this digest at this location
    Visit { probe: u32, path: Path, digest: u64, failed: bool },
    /// a user callback was called
    Call {
        fn_id: u32,
        stage: Stage,
        arg: Option<MVal>,
        loc: Option<Path>,
        key: Option<String>,
        accepted: Option<Vec<String>>,
        failed: bool,
    },
    /// `DeserializeError::error`: a new report `rid` was minted
    Report {
        rid: u32,
        ty: u8,
        self_: Option<u32>,
        result: u32,
        kind: KindSnap,
        loc: Path,
        brk: bool,
    },
    /// `MergeWithError<SimErrT<_>>::merge`: a hand-over of an error value
    Merge {
        ty: u8,
        self_: Option<u32>,
        other: u32,
        other_ty: u8,
        other_reports: Vec<u32>,
        result: u32,
        loc: Path,
        brk: bool,
    },
    /// `MergeWithError<UserErr>::merge`: a user error arrives; it becomes report `rid`
    Foreign {
        rid: u32,
        ty: u8,
        self_: Option<u32>,
        token: String,
        result: u32,
        loc: Path,
        brk: bool,
    },
    /// the value source handed out the next entry of the object at `at` (its iterator yielded)
    Deliver { at: Path, key: String },
    /// the value of the object member at `path` was decoded (`IntoValue::into_value`)
    Decode { path: Path },
    /// the value source handed out element `index` of the sequence at `at` (its iterator yielded)
    Pull { at: Path, index: usize },
    /// an error value died without having been handed to anybody
    Dropped { vid: u32, ty: u8, reports: Vec<u32> },
    /// a user error died without having been handed to the error type
    DroppedUser { token: String },
}

impl Event {
    pub fn is_decision(&self) -> bool {
        matches!(self, Event::Report { .. } | Event::Merge { .. } | Event::Foreign { .. })
    }
    pub fn brk(&self) -> Option<bool> {
        match self {
            Event::Report { brk, .. } | Event::Merge { brk, .. } | Event::Foreign { brk, .. } => Some(*brk),
            _ => None,
        }
    }
    pub fn result(&self) -> Option<u32> {
        match self {
            Event::Report { result, .. } | Event::Merge { result, .. } | Event::Foreign { result, .. } => {
                Some(*result)
            }
            _ => None,
        }
    }
    pub fn loc(&self) -> Option<&Path> {
        match self {
            Event::Report { loc, .. } | Event::Merge { loc, .. } | Event::Foreign { loc, .. } => Some(loc),
            _ => None,
        }
    }
    /// same event with the answer erased (for prefix comparison between scripts)
    pub fn without_answer(&self) -> Event {
        let mut e = self.clone();
        match &mut e {
            Event::Report { brk, .. } | Event::Merge { brk, .. } | Event::Foreign { brk, .. } => *brk = false,
            _ => {}
        }
        e
    }
    pub fn render(&self) -> String {
        match self {
            Event::Visit { probe, path, digest, failed } => format!(
                "Visit P{probe} at {} digest={:08x}{}",
                path_str(path),
                digest & 0xffff_ffff,
                if *failed { " LEAF-FAIL" } else { "" }
            ),
            Event::Call { fn_id, stage, arg, loc, key, accepted, failed } => format!(
                "Call f{fn_id} {stage:?} arg={} loc={} key={key:?} accepted={accepted:?}{}",
                arg.as_ref().map(|a| a.render()).unwrap_or_else(|| "-".into()),
                loc.as_ref().map(|l| path_str(l)).unwrap_or_else(|| "-".into()),
                if *failed { " CB-FAIL" } else { "" }
            ),
            Event::Report { rid, ty, self_, result, kind, loc, brk } => format!(
                "Report r{rid} E{ty} self={self_:?} -> v{result} {} at {} answer={}",
                kind.render(),
                path_str(loc),
                if *brk { "Break" } else { "Continue" }
            ),
            Event::Merge { ty, self_, other, other_ty, other_reports, result, loc, brk } => format!(
                "Merge E{ty} self={self_:?} other=v{other}(E{other_ty} {other_reports:?}) -> v{result} at {} answer={}",
                path_str(loc),
                if *brk { "Break" } else { "Continue" }
            ),
            Event::Foreign { rid, ty, self_, token, result, loc, brk } => format!(
                "Foreign r{rid} E{ty} self={self_:?} user={token} -> v{result} at {} answer={}",
                path_str(loc),
                if *brk { "Break" } else { "Continue" }
            ),
            Event::Deliver { at, key } => format!("Deliver entry {key:?} of the object at {}", path_str(at)),
            Event::Decode { path } => format!("Decode member value at {}", path_str(path)),
            Event::Pull { at, index } => format!("Pull element {index} of the sequence at {}", path_str(at)),
            Event::Dropped { vid, ty, reports } => format!("Dropped v{vid} E{ty} holding {reports:?}"),
            Event::DroppedUser { token } => format!("DroppedUser {token}"),
        }
    }
}

#[derive(Clone, Debug, PartialEq)]
pub enum Outcome {
    Ok(MVal),
    Err { vid: u32, reports: Vec<u32> },
    /// a built-in error type was the error party: only its message is known
    ErrMsg(String),
    Panic(String),
}

impl Outcome {
    pub fn render(&self) -> String {
        match self {
            Outcome::Ok(v) => format!("Return Ok({})", v.render()),
            Outcome::Err { vid, reports } => format!("Return Err(v{vid} holding {reports:?})"),
            Outcome::ErrMsg(m) => format!("Return Err({m:?})"),
            Outcome::Panic(m) => format!("PANIC {m}"),
        }
    }
}

pub struct Ctx {
    pub events: Vec<Event>,
    pub script: Script,
    pub decisions: usize,
    pub leaf_faults: Vec<Path>,
    pub cb_faults: Vec<(u32, u64)>,
    pub swap_remove: bool,
    pub next_vid: u32,
    pub next_rid: u32,
    /// statistics
    pub removes: u32,
    pub swap_moved_known: u32,
    /// >0 while the harness itself walks a value (snapshots): source events are not history then
    pub quiet: u32,
}

impl Ctx {
    pub fn new() -> Ctx {
        Ctx {
            events: vec![],
            script: Script::AllC,
            decisions: 0,
            leaf_faults: vec![],
            cb_faults: vec![],
            swap_remove: false,
            next_vid: 0,
            next_rid: 0,
            removes: 0,
            swap_moved_known: 0,
            quiet: 0,
        }
    }
}

thread_local! {
    pub static CTX: RefCell<Ctx> = RefCell::new(Ctx::new());
}

pub fn reset(script: Script, leaf_faults: Vec<Path>, cb_faults: Vec<(u32, u64)>, swap_remove: bool) {
    CTX.with(|c| {
        let mut c = c.borrow_mut();
        c.events.clear();
        c.script = script;
        c.decisions = 0;
        c.leaf_faults = leaf_faults;
        c.cb_faults = cb_faults;
        c.swap_remove = swap_remove;
        c.next_vid = 0;
        c.next_rid = 0;
        c.removes = 0;
        c.swap_moved_known = 0;
        c.quiet = 0;
    })
}

/// events of the value source; suppressed while the harness's own observers walk a value
pub fn log_source(e: Event) {
    CTX.with(|c| {
        let mut c = c.borrow_mut();
        if c.quiet == 0 {
            c.events.push(e);
        }
    })
}

pub fn quietly<R>(f: impl FnOnce() -> R) -> R {
    CTX.with(|c| c.borrow_mut().quiet += 1);
    let r = f();
    CTX.with(|c| c.borrow_mut().quiet -= 1);
    r
}

pub fn take_events() -> Vec<Event> {
    CTX.with(|c| std::mem::take(&mut c.borrow_mut().events))
}

pub fn log(e: Event) {
    CTX.with(|c| c.borrow_mut().events.push(e))
}

/// consume the next answer of the script: true = Break
pub fn next_answer() -> bool {
    CTX.with(|c| {
        let mut c = c.borrow_mut();
        let a = c.script.answer(c.decisions);
        c.decisions += 1;
        a
    })
}

pub fn new_vid() -> u32 {
    CTX.with(|c| {
        let mut c = c.borrow_mut();
        c.next_vid += 1;
        c.next_vid
    })
}

pub fn new_rid() -> u32 {
    CTX.with(|c| {
        let mut c = c.borrow_mut();
        c.next_rid += 1;
        c.next_rid
    })
}

pub fn leaf_fails(path: &Path) -> bool {
    CTX.with(|c| c.borrow().leaf_faults.iter().any(|p| p == path))
}

pub fn cb_fails(fn_id: u32, arg_hash: u64) -> bool {
    CTX.with(|c| c.borrow().cb_faults.iter().any(|(f, h)| *f == fn_id && *h == arg_hash))
}

pub fn swap_remove() -> bool {
    CTX.with(|c| c.borrow().swap_remove)
}

pub fn fingerprint(events: &[Event], outcome: &Outcome) -> u64 {
    let mut f = Fnv::new();
    for e in events {
        f.str(&e.render());
    }
    f.str(&outcome.render());
    f.finish()
}

pub fn step_of(s: &Step) -> String {
    match s {
        Step::Key(k) => format!(".{k}"),
        Step::Index(i) => format!("[{i}]"),
    }
}
