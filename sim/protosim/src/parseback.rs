//! Independent parse-back of the messages of `JsonError` and `QueryParamError` (C14). Nothing in
//! here calls deserr's rendering helpers: the message is taken apart as text and every part is
//! compared with the recorded first report and with the document the source holds.

use crate::c14::{first_report, First};
use crate::checks::Checker;
use crate::history::{KindSnap, Outcome, Script};
use crate::rules::Violation;
use crate::runner::{ErrParty, Run};
use simcore::doc::{path_str, Doc, Path, Step};

fn safe_key(k: &str) -> bool {
    !k.is_empty() && k.chars().all(|c| c.is_ascii_alphanumeric() || c == '_')
}

fn safe_name(k: &str) -> bool {
    !k.contains('`')
}

/// `tick-quoted` prefix: returns (content, rest)
fn take_tick(s: &str) -> Option<(&str, &str)> {
    let s = s.strip_prefix('`')?;
    let end = s.find('`')?;
    Some((&s[..end], &s[end + 1..]))
}

fn parse_path(p: &str, leading_dot: bool) -> Option<Path> {
    let mut out: Path = vec![];
    let b = p.as_bytes();
    let mut i = 0;
    let mut first = true;
    while i < b.len() {
        if b[i] == b'[' {
            let end = p[i..].find(']')? + i;
            out.push(Step::Index(p[i + 1..end].parse().ok()?));
            i = end + 1;
        } else {
            if b[i] == b'.' {
                if !leading_dot && first {
                    return None;
                }
                i += 1;
            } else if leading_dot || !first {
                return None;
            }
            let start = i;
            while i < b.len() && (b[i].is_ascii_alphanumeric() || b[i] == b'_') {
                i += 1;
            }
            if i == start {
                return None;
            }
            out.push(Step::Key(p[start..i].to_string()));
        }
        first = false;
    }
    Some(out)
}

/// optional `{article} `PATH`` prefix; returns (path, rest)
fn take_location<'a>(s: &'a str, article: &str, leading_dot: bool) -> Option<(Path, &'a str)> {
    let with = format!(" {article} ");
    if let Some(rest) = s.strip_prefix(with.as_str()) {
        if rest.starts_with('`') {
            let (p, rest) = take_tick(rest)?;
            return Some((parse_path(p, leading_dot)?, rest));
        }
    }
    Some((vec![], s))
}

#[derive(Debug)]
enum Parsed {
    ValueType { path: Path, found: String },
    Missing { field: String, path: Path },
    UnknownKey { key: String, path: Path, suggestion: Option<String>, accepted: Vec<String> },
    UnknownValue { value: String, path: Path, suggestion: Option<String>, accepted: Vec<String> },
    ArrayLen { path: Path, received: usize, expected: usize, json: String },
    Invalid { path: Path, msg: String },
}

fn parse_alternatives(s: &str) -> Option<(Option<String>, Vec<String>)> {
    let s = s.strip_prefix(": ")?;
    let (suggestion, s) = match s.strip_prefix("did you mean ") {
        Some(rest) => {
            let (sug, rest) = take_tick(rest)?;
            (Some(sug.to_string()), rest.strip_prefix("? ")?)
        }
        None => (None, s),
    };
    let mut s = s.strip_prefix("expected one of ")?;
    let mut accepted = vec![];
    if s.is_empty() {
        return Some((suggestion, accepted));
    }
    loop {
        let (a, rest) = take_tick(s)?;
        accepted.push(a.to_string());
        if rest.is_empty() {
            break;
        }
        s = rest.strip_prefix(", ")?;
    }
    Some((suggestion, accepted))
}

struct Dialect {
    leading_dot: bool,
    value_type_article: &'static str,
    missing: &'static str,
    unknown_key: &'static str,
    inside: &'static str,
    unknown_value_article: &'static str,
    len_article: &'static str,
    invalid_article: &'static str,
}

const JSON: Dialect = Dialect {
    leading_dot: true,
    value_type_article: "at",
    missing: "Missing field ",
    unknown_key: "Unknown field ",
    inside: "inside",
    unknown_value_article: "at",
    len_article: "at",
    invalid_article: "at",
};

const QUERY: Dialect = Dialect {
    leading_dot: false,
    value_type_article: "for parameter",
    missing: "Missing parameter ",
    unknown_key: "Unknown parameter ",
    inside: "inside",
    unknown_value_article: "for parameter",
    len_article: "for parameter",
    invalid_article: "in parameter",
};

fn parse_msg(m: &str, d: &Dialect) -> Option<Parsed> {
    if let Some(rest) = m.strip_prefix("Invalid value type") {
        let (path, rest) = take_location(rest, d.value_type_article, d.leading_dot)?;
        let rest = rest.strip_prefix(": expected ")?;
        let idx = rest.find(", but found ")?;
        let found = &rest[idx + ", but found ".len()..];
        return Some(Parsed::ValueType { path, found: found.to_string() });
    }
    if let Some(rest) = m.strip_prefix(d.missing) {
        let (field, rest) = take_tick(rest)?;
        let (path, rest) = take_location(rest, d.inside, d.leading_dot)?;
        if !rest.is_empty() {
            return None;
        }
        return Some(Parsed::Missing { field: field.to_string(), path });
    }
    if let Some(rest) = m.strip_prefix(d.unknown_key) {
        let (key, rest) = take_tick(rest)?;
        let (path, rest) = take_location(rest, d.inside, d.leading_dot)?;
        let (suggestion, accepted) = parse_alternatives(rest)?;
        return Some(Parsed::UnknownKey { key: key.to_string(), path, suggestion, accepted });
    }
    if let Some(rest) = m.strip_prefix("Unknown value ") {
        let (value, rest) = take_tick(rest)?;
        let (path, rest) = take_location(rest, d.unknown_value_article, d.leading_dot)?;
        let (suggestion, accepted) = parse_alternatives(rest)?;
        return Some(Parsed::UnknownValue { value: value.to_string(), path, suggestion, accepted });
    }
    if let Some(rest) = m.strip_prefix("Invalid array len") {
        let (path, rest) = take_location(rest, d.len_article, d.leading_dot)?;
        let rest = rest.strip_prefix(". Received ")?;
        let sp = rest.find(' ')?;
        let received: usize = rest[..sp].parse().ok()?;
        let rest = rest[sp..].strip_prefix(" elements instead of ")?;
        let colon = rest.find(':')?;
        let expected: usize = rest[..colon].parse().ok()?;
        let rest = rest[colon..].strip_prefix(": `")?;
        let json = rest.strip_suffix('`')?;
        return Some(Parsed::ArrayLen { path, received, expected, json: json.to_string() });
    }
    if let Some(rest) = m.strip_prefix("Invalid value") {
        let (path, rest) = take_location(rest, d.invalid_article, d.leading_dot)?;
        let msg = rest.strip_prefix(": ")?;
        return Some(Parsed::Invalid { path, msg: msg.to_string() });
    }
    None
}

/// Unrestricted Damerau-Levenshtein distance over characters (Lowrance-Wagner), written here so
/// that the "suggestion only when one is close" clause is judged independently of deserr.
pub fn damerau_levenshtein(a: &str, b: &str) -> usize {
    let a: Vec<char> = a.chars().collect();
    let b: Vec<char> = b.chars().collect();
    let (n, m) = (a.len(), b.len());
    if n == 0 {
        return m;
    }
    if m == 0 {
        return n;
    }
    let maxd = n + m;
    let mut d = vec![vec![0usize; m + 2]; n + 2];
    d[0][0] = maxd;
    for i in 0..=n {
        d[i + 1][0] = maxd;
        d[i + 1][1] = i;
    }
    for j in 0..=m {
        d[0][j + 1] = maxd;
        d[1][j + 1] = j;
    }
    let mut last_row: std::collections::HashMap<char, usize> = std::collections::HashMap::new();
    for i in 1..=n {
        let mut last_match_col = 0;
        for j in 1..=m {
            let i1 = *last_row.get(&b[j - 1]).unwrap_or(&0);
            let j1 = last_match_col;
            let cost = if a[i - 1] == b[j - 1] {
                last_match_col = j;
                0
            } else {
                1
            };
            let subst = d[i][j] + cost;
            let ins = d[i + 1][j] + 1;
            let del = d[i][j + 1] + 1;
            let transp = d[i1][j1] + (i - i1 - 1) + 1 + (j - j1 - 1);
            d[i + 1][j + 1] = subst.min(ins).min(del).min(transp);
        }
        last_row.insert(a[i - 1], i);
    }
    d[n + 1][m + 1]
}

/// typo budget by the byte length of what was received (property C18's table)
fn budget(received: &str) -> Option<usize> {
    match received.len() {
        0..=3 => None,
        4..=7 => Some(1),
        8..=12 => Some(2),
        13..=17 => Some(3),
        18..=24 => Some(4),
        _ => Some(5),
    }
}

/// the suggestion the documented rule calls for: an accepted name at minimal distance within
/// the budget, the earliest such; none when nothing is that close
fn expected_suggestion(received: &str, accepted: &[String]) -> Option<String> {
    let b = budget(received)?;
    let mut best: Option<(usize, &String)> = None;
    for a in accepted {
        let dist = damerau_levenshtein(received, a);
        if dist <= b && best.map(|(bd, _)| dist < bd).unwrap_or(true) {
            best = Some((dist, a));
        }
    }
    best.map(|(_, a)| a.clone())
}

/// my distance function against the strsim crate on seeded random pairs: a disagreement is a
/// harness error, never a violation
pub fn selftest_distance() -> Result<(), String> {
    let mut rng = simcore::rng::Rng::new(0xD157);
    let alphabet: Vec<char> = "abcé_X".chars().collect();
    for _ in 0..20_000 {
        let mk = |rng: &mut simcore::rng::Rng| -> String {
            let n = rng.below(9);
            (0..n).map(|_| *rng.pick(&alphabet)).collect()
        };
        let (x, y) = (mk(&mut rng), mk(&mut rng));
        let mine = damerau_levenshtein(&x, &y);
        let theirs = strsim::damerau_levenshtein(&x, &y);
        if mine != theirs {
            return Err(format!("distance({x:?},{y:?}): harness {mine}, strsim {theirs}"));
        }
    }
    Ok(())
}

/// What `serde_json::Value::from(deserr::Value)` is documented to hold: the same value, with a
/// float JSON cannot express replaced by null.
fn json_projection(d: &Doc) -> Doc {
    match d {
        Doc::Float(x) if !x.is_finite() => Doc::Null,
        Doc::Seq(v) => Doc::Seq(v.iter().map(json_projection).collect()),
        Doc::Map(m) => Doc::Map(m.iter().map(|(k, v)| (k.clone(), json_projection(v))).collect()),
        other => other.clone(),
    }
}

fn json_text_is(text: &str, want: &Doc) -> bool {
    let want = &json_projection(want);
    match serde_json::from_str::<serde_json::Value>(text) {
        Ok(j) => {
            if Doc::from_json(&j).same_unordered(want) {
                return true;
            }
            // serde_json's default float parser may be one ulp off when reading back a printed
            // float: fall back to comparing the text with serde_json's own printing of the held
            // value (members sorted on both sides)
            serde_json::to_string(&want.to_json()).map(|t| t == text).unwrap_or(false)
        }
        Err(_) => false,
    }
}

fn compare(
    party: ErrParty,
    parsed: &Parsed,
    first: &First,
    loc: &Path,
    doc: &Doc,
    tag_keys: &[String],
) -> Result<(), String> {
    let path = match parsed {
        Parsed::ValueType { path, .. }
        | Parsed::Missing { path, .. }
        | Parsed::UnknownKey { path, .. }
        | Parsed::UnknownValue { path, .. }
        | Parsed::ArrayLen { path, .. }
        | Parsed::Invalid { path, .. } => path,
    };
    if path != loc {
        return Err(format!("the path in the message reads back as {} but the report is located at {}", path_str(path), path_str(loc)));
    }
    let here = doc
        .resolve(path)
        .ok_or_else(|| format!("the path in the message ({}) does not resolve in the payload", path_str(path)))?;
    let alts = |received: &str, sug: &Option<String>, acc: &Vec<String>, want: &Vec<String>| -> Result<(), String> {
        if acc != want {
            return Err(format!("the message lists the alternatives {acc:?} but the report carries {want:?}"));
        }
        if let Some(s) = sug {
            if !want.contains(s) {
                return Err(format!("the message suggests `{s}` which is not one of the accepted names {want:?}"));
            }
        }
        // "a suggestion only when one is close"
        let expect = expected_suggestion(received, want);
        if *sug != expect {
            return Err(format!(
                "for `{received}` among {want:?} the message suggests {sug:?}; the closest accepted name within the typo budget is {expect:?}"
            ));
        }
        Ok(())
    };
    match (parsed, first) {
        (Parsed::ValueType { found, .. }, First::Kind(KindSnap::IncorrectValueKind { actual, .. })) => {
            if !actual.same_unordered(here) {
                return Err(format!("the reported value is not the value at {} in the payload", path_str(path)));
            }
            match party {
                ErrParty::JsonError => {
                    if matches!(json_projection(actual), Doc::Null) {
                        if found != "null" {
                            return Err(format!("the payload holds null there but the message says {found:?}"));
                        }
                    } else {
                        let idx = found.find(": `").ok_or_else(|| format!("cannot find the quoted value in {found:?}"))?;
                        let text = found[idx + 3..].strip_suffix('`').ok_or_else(|| "unterminated quote".to_string())?;
                        if !json_text_is(text, here) {
                            return Err(format!(
                                "the JSON text quoted by the message ({text}) is not the value at {} in the payload ({})",
                                path_str(path),
                                here.render()
                            ));
                        }
                    }
                }
                _ => {
                    let want = match actual {
                        Doc::Null => "null".to_string(),
                        Doc::Bool(x) => format!("a boolean: `{x}`"),
                        Doc::Int(x) => format!("an integer: `{x}`"),
                        Doc::Neg(x) => format!("an integer: `{x}`"),
                        Doc::Float(x) => format!("a number: `{x}`"),
                        Doc::Str(x) => format!("a string: `{x}`"),
                        Doc::Seq(_) => "multiple values".to_string(),
                        Doc::Map(_) => "multiple parameters".to_string(),
                    };
                    if *found != want {
                        return Err(format!("the message describes the offending value as {found:?}; the payload holds {want:?} there"));
                    }
                }
            }
            Ok(())
        }
        (Parsed::Missing { field, .. }, First::Kind(KindSnap::MissingField { field: f })) => {
            if field != f {
                return Err(format!("the message names the missing field `{field}` but the report says `{f}`"));
            }
            Ok(())
        }
        (Parsed::UnknownKey { key, suggestion, accepted, .. }, First::Kind(KindSnap::UnknownKey { key: k, accepted: a })) => {
            if key != k {
                return Err(format!("the message names the unknown key `{key}` but the report says `{k}`"));
            }
            alts(key, suggestion, accepted, a)
        }
        (Parsed::UnknownValue { value, suggestion, accepted, .. }, First::Kind(KindSnap::UnknownValue { value: v, accepted: a })) => {
            if value != v {
                return Err(format!("the message names the unknown value `{value}` but the report says `{v}`"));
            }
            if !matches!(here, Doc::Str(s) if s == value) {
                return Err(format!("the message quotes the unknown value `{value}`; the payload holds {} at {}", here.render(), path_str(path)));
            }
            alts(value, suggestion, accepted, a)
        }
        (Parsed::ArrayLen { received, expected, json, .. }, First::Kind(KindSnap::BadSequenceLen { actual, expected: e })) => {
            if *received != actual.len() || expected != e {
                return Err(format!(
                    "the message says {received} elements instead of {expected}; the report carries {} elements, expected {e}",
                    actual.len()
                ));
            }
            if !json_text_is(json, here) {
                return Err(format!("the sequence quoted by the message ({json}) is not the value at {} in the payload ({})", path_str(path), here.render()));
            }
            Ok(())
        }
        (Parsed::Invalid { msg, .. }, First::Kind(KindSnap::Unexpected { msg: m })) => {
            if msg != m {
                return Err(format!("the detail message reads {msg:?}, the report carries {m:?}"));
            }
            // what the library's own free text says about the value must be true of the value the
            // printed path leads to
            if let Some(why) = crate::rules::unexpected_claims(msg, here, &|k| tag_keys.iter().any(|t| t == k)) {
                return Err(format!("at {}: {why}", path_str(path)));
            }
            Ok(())
        }
        (Parsed::Invalid { msg, .. }, First::Foreign(token)) => {
            let token = &crate::parties::user_shown(token);
            if msg != token {
                return Err(format!("the detail message reads {msg:?}, the user error was {token:?}"));
            }
            Ok(())
        }
        (p, f) => Err(format!("the message is of another kind ({p:?}) than the first report ({f:?})")),
    }
}

pub fn check(c: &mut Checker, base: &Run) {
    check_source(c, base, crate::runner::Source::Sim)
}

/// `base` is the keep-going run over `source`; with the serde_json source only `JsonError` is read
/// back (the production pairing), against the document as the harness holds it
pub fn check_source(c: &mut Checker, base: &Run, source: crate::runner::Source) {
    if c.scn.has_exotic || c.scn.has_dup {
        return;
    }
    let (first, loc) = match first_report(&base.events) {
        Some(x) => x,
        None => return,
    };
    // keys restricted to characters that make the rendered path unambiguous
    let keys_ok = loc.iter().all(|s| match s {
        Step::Key(k) => safe_key(k),
        Step::Index(_) => true,
    });
    let names_ok = match &first {
        First::Kind(KindSnap::MissingField { field }) => safe_name(field),
        First::Kind(KindSnap::UnknownKey { key, accepted }) => safe_name(key) && accepted.iter().all(|a| safe_name(a)),
        First::Kind(KindSnap::UnknownValue { value, accepted }) => safe_name(value) && accepted.iter().all(|a| safe_name(a)),
        _ => true,
    };
    if !keys_ok || !names_ok {
        c.stats.bump("parseback_skipped_ambiguous_keys", 1);
        return;
    }
    let doc = c.scn.doc.clone();
    // programs in which a variant field is keyed like its enum's tag: that key is taken out of the
    // object before the fields are read, so "the payload has a member of that name" refutes nothing
    // about a field reported missing (false alarm met in the thorough tier, DESIGN section 11)
    let tag_keys: Vec<String> = if c.env.feats[c.scn.program].tag_clash {
        c.env.cat.types.iter().filter_map(|t| match &t.kind {
            simcore::desc::TypeKind::Tagged { tag, .. } => Some(tag.clone()),
            _ => None,
        }).collect()
    } else {
        vec![]
    };
    for (party, dialect) in [(ErrParty::JsonError, &JSON), (ErrParty::QueryParamError, &QUERY)] {
        if source == crate::runner::Source::Json && party != ErrParty::JsonError {
            continue;
        }
        let mut cfg = c.cfg(Script::AllC);
        cfg.err = party;
        cfg.source = source;
        let r = c.exec(&cfg, &|r| matches!(r.outcome, Outcome::ErrMsg(_)));
        let m = match &r.outcome {
            Outcome::ErrMsg(m) => m.clone(),
            _ => continue, // linkage already reported it
        };
        let mut out = vec![];
        match parse_msg(&m, dialect) {
            None => out.push(Violation {
                rule: "M-parseback",
                msg: format!("{party:?} message {m:?} does not have the documented shape (first report: {first:?} at {})", path_str(&loc)),
            }),
            Some(p) => {
                c.stats.bump("parseback_checked", 1);
                c.stats.bump(&format!("parseback_kind_{}", match &first { First::Kind(k) => k.class(), First::Foreign(_) => "Foreign" }), 1);
                if loc.is_empty() {
                    c.stats.bump("parseback_at_root", 1);
                }
                if loc.len() >= 3 {
                    c.stats.bump("parseback_at_depth_ge3", 1);
                }
                if let Err(why) = compare(party, &p, &first, &loc, &doc, &tag_keys) {
                    out.push(Violation { rule: "M-parseback", msg: format!("{party:?} message {m:?}: {why}") });
                }
            }
        }
        c.record(out, &cfg, &r);
    }
}
