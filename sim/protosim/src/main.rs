fn main() {
    let r = protosim::generated::runners();
    println!("{} programs", r.len());
}
