//! protosim: the protocol simulator for `deserr::deserialize` (engine A).
//!
//!   protosim check <Cxx> [--tier quick|thorough] [--scenarios N] [--max-seconds S]
//!                        [--threads T] [--fp-log FILE] [--evidence FILE]
//!   protosim replay <file>
//!   protosim programs
//!
//! Exit status: 0 clean, 1 violation (a `VIOLATION property=<id> replay=<path>` line is
//! printed), 2 harness error.

use protosim::checks::{self, check, Env, Found, Prop, Stats};
use protosim::history::Script;
use protosim::minimise::minimise;
use protosim::runner::{run, ErrParty, RunCfg, Source};
use protosim::scenario::{self, Scenario};
use simcore::catalogue;
use std::collections::BTreeMap;
use std::io::Write;
use std::sync::atomic::{AtomicBool, AtomicU64, Ordering};
use std::sync::Mutex;
use std::time::Instant;

fn harness_error(msg: &str) -> ! {
    eprintln!("HARNESS-ERROR: {msg}");
    std::process::exit(2);
}

fn build_env() -> Env {
    let cat = if protosim::generated::UNIFORM {
        catalogue::uniform(protosim::generated::PROGRAM_SEED, protosim::generated::N_GEN)
    } else {
        catalogue::catalogue(protosim::generated::PROGRAM_SEED, protosim::generated::N_GEN)
    };
    let runners = protosim::generated::runners();
    if cat.programs.len() != runners.len()
        || cat.programs.len() != protosim::generated::N_PROGRAMS
        || cat.types.len() != protosim::generated::N_TYPES
    {
        harness_error("generated catalogue source does not match the descriptor catalogue; re-run catgen");
    }
    let feats = cat.programs.iter().map(|p| cat.features(&p.root)).collect();
    Env { cat, feats, runners }
}

fn arg_value(args: &[String], name: &str) -> Option<String> {
    args.iter().position(|a| a == name).and_then(|i| args.get(i + 1).cloned())
}

fn rule_text(prop: Prop) -> &'static str {
    match prop {
        Prop::C01 => "each scenario = (catalogue program, generated payload with seeded source faults incl. duplicate keys / NaN / depth-128, leaf and callback faults, remove discipline); per scenario the keep-going run, EVERY stop position k as C^k B* and C^k B C*, one random answer script, and the same through the real serde_json source. A run is non-trivial when at least one report was made; distinct = distinct history fingerprints (hash of the full event log + outcome).",
        Prop::C02 => "each scenario is run keep-going (C*) through the simulated source and, when representable, serde_json, and compared with the reference interpreter: report multiset (M-reports) and set of examined leaves (M-visits). Non-trivial = at least one report; distinct = distinct history fingerprints.",
        Prop::C03 => "per scenario the keep-going run is recorded, then EVERY k in 0..=D (D = its number of decisions) is run as C^k B* (H-stop, H-prefix, H-handover-only) and C^k B C* (H-stop, H-prefix), plus B* (H-first), a random script, the serde_json source, and JsonError/QueryParamError swapped in as error party. Non-trivial = at least one Break consumed; distinct = distinct history fingerprints.",
        Prop::C04 => "every event of every run is resolved against the document the source holds (H-loc): keep-going, B*, random script, up to six C^k B C* and the serde_json source; on the keep-going run M-handover demands a hand-over located exactly at each failing child. Non-trivial = at least one report; distinct = distinct history fingerprints.",
        Prop::C06 => "std-container programs (no derived type): keep-going run vs reference interpreter for value with provenance tokens (M-value) and reports (M-reports), through both sources. Every run counts as non-trivial (success paths are the subject); distinct = distinct history fingerprints.",
        Prop::C07 => "derived struct/enum programs (hand-written and generated: rename, rename_all at container and variant level, skipped fields in any position) on valid payloads extended with near-miss / spurious members in seeded delivery order; value with provenance tokens and found/missing/unknown key names vs reference interpreter, both remove disciplines. Every run non-trivial; distinct = distinct history fingerprints.",
        Prop::C08 => "derived programs with default / default = expr / skip / missing_field_error / map / Option; payload members deleted, nulled or corrupted; missing-field reports, custom-function calls, defaults in the value, and never-visited skipped fields vs reference interpreter. Every run non-trivial; distinct = distinct history fingerprints.",
        Prop::C09 => "derived programs with and without deny_unknown_fields; spurious and near-miss members injected; UnknownKey reports and custom-function calls vs reference interpreter; X-spurious compares the run with the run on the payload stripped of unread members. Every run non-trivial; distinct = distinct history fingerprints.",
        Prop::C10 => "enum programs (tagged and unit-only); tag dropped / non-string / unknown / near-miss / moved / switched, both remove disciplines; value and reports vs reference interpreter. Every run non-trivial; distinct = distinct history fingerprints.",
        Prop::C11 => "programs using from / try_from / map / validate / field-level error type; leaf and callback faults; keep-going run: calls, value and user-error reports equal the reference interpreter's; every stop position and a random script: no call outside the keep-going call set, none twice, every failed callback handed over at once, no user error or field-level error value dropped. Non-trivial = at least one callback call; distinct = distinct history fingerprints.",
        Prop::C12 => "hostile mix: all source faults incl. duplicates, NaN/inf, NegativeInteger(n>=0), depth-128 and 10000-element payloads; every stop position, random scripts, both remove disciplines, both sources, all three error parties; catch_unwind around each call. Every run non-trivial; distinct = distinct history fingerprints.",
        Prop::C14 => "failing payloads: JsonError and QueryParamError swapped in as the error party; message must equal that type's rendering of the first keep-going report (linkage) and is parsed back independently: path, quoted JSON value, names, alternatives, suggestion, lengths compared with the recorded report and the held document; the recorded first report itself must be one the reference interpreter expects for the payload (M-first). Non-trivial = the built-in error type returned an error; distinct = distinct history fingerprints.",
        Prop::C15 => "per scenario all joint member orders of all objects when there are at most 200 (else 64 seeded joint permutations), times both remove disciplines, keep-going answers; value and report multiset must equal those of the base order. Every run non-trivial; distinct = distinct history fingerprints.",
    }
}

fn level(prop: Prop) -> &'static str {
    match prop {
        Prop::C03 => "fault_enumeration",
        _ => "exploration",
    }
}

struct Budget {
    scenarios: u64,
    max_seconds: f64,
}

fn budget(prop: Prop, tier: &str) -> Budget {
    let quick = match prop {
        Prop::C01 | Prop::C03 | Prop::C04 | Prop::C12 | Prop::C11 => 600_000,
        Prop::C15 => 150_000,
        _ => 1_000_000,
    };
    if tier == "thorough" {
        Budget { scenarios: quick * 20, max_seconds: 900.0 }
    } else {
        Budget { scenarios: quick, max_seconds: 90.0 }
    }
}

fn known_findings() -> Vec<serde_json::Value> {
    let path = "/verif/known_findings.json";
    match std::fs::read_to_string(path) {
        Ok(s) => match serde_json::from_str::<serde_json::Value>(&s) {
            Ok(j) => j.get("findings").and_then(|f| f.as_array()).cloned().unwrap_or_default(),
            Err(e) => harness_error(&format!("cannot parse {path}: {e}")),
        },
        Err(_) => vec![],
    }
}

/// a violation is a known finding when an entry with status "known" for this property names
/// its rule and every `message_contains` fragment occurs in the violation message
fn match_known<'a>(known: &'a [serde_json::Value], prop: Prop, f: &Found, scn: &Scenario) -> Option<&'a serde_json::Value> {
    known.iter().find(|k| {
        k.get("status").and_then(|s| s.as_str()) == Some("known")
            && k.get("property").and_then(|s| s.as_str()) == Some(prop.id())
            && k.get("rule").and_then(|s| s.as_str()) == Some(f.rule)
            && k.get("message_contains").and_then(|m| m.as_array()).map(|m| m.iter().all(|x| x.as_str().map(|x| f.msg.contains(x)).unwrap_or(false))).unwrap_or(false)
            && k.get("program_contains").and_then(|m| m.as_str()).map(|m| scn.program_name.contains(m)).unwrap_or(true)
    })
}

const SESSION_LEN: u64 = 4096;

fn write_replay(prop: Prop, scn: &Scenario, f: &Found, original: &Scenario, attempts: usize, nondeterministic: bool, earlier: &[Scenario], process_death: bool) -> String {
    let dir = "/verif/replays";
    let _ = std::fs::create_dir_all(dir);
    let path = format!("{dir}/{}-seed{}-run{}-{}.json", prop.id(), scn.seed, scn.run_index, f.rule);
    let j = serde_json::json!({
        "property": prop.id(),
        "rule": f.rule,
        "message": f.msg,
        "failing_run": f.label,
        "code_under_test_nondeterministic": nondeterministic,
        "process_death": process_death,
        "expected_fingerprint": f.fingerprint.to_string(),
        "scenario": scn.to_json(),
        "earlier_scenarios_of_the_session": earlier.iter().map(|e| e.to_json()).collect::<Vec<_>>(),
        "history_of_failing_run": f.history,
        "outcome_of_failing_run": f.outcome,
        "minimisation": {"attempts": attempts, "original_document_nodes": original.doc.size(), "minimised_document_nodes": scn.doc.size(),
                          "original_leaf_faults": original.leaf_faults.len(), "original_cb_faults": original.cb_faults.len()},
        "catalogue": {"program_seed": protosim::generated::PROGRAM_SEED, "n_gen": protosim::generated::N_GEN,
                       "generated_source": env!("PROTOSIM_GENERATED_PATH")},
        "replay": format!("/verif/check replay {path}"),
    });
    std::fs::write(&path, serde_json::to_string_pretty(&j).unwrap()).unwrap_or_else(|e| harness_error(&format!("cannot write {path}: {e}")));
    path
}

fn cmd_replay(env: &Env, file: &str) -> i32 {
    let text = std::fs::read_to_string(file).unwrap_or_else(|e| harness_error(&format!("cannot read {file}: {e}")));
    // a replay file may hold a document nested deeper than serde_json's default limit of 128
    let j: serde_json::Value = {
        use serde::Deserialize;
        let mut de = serde_json::Deserializer::from_str(&text);
        de.disable_recursion_limit();
        serde_json::Value::deserialize(&mut de).unwrap_or_else(|e| harness_error(&format!("bad replay file: {e}")))
    };
    if j.get("process_death").and_then(|b| b.as_bool()).unwrap_or(false) && std::env::var("PROTOSIM_REPLAY_INNER").is_err() {
        // what is replayed is the death of a process: do it in one we can lose
        let exe = std::env::current_exe().unwrap_or_else(|e| harness_error(&format!("current_exe: {e}")));
        let status = std::process::Command::new(exe)
            .args(["replay", file])
            .env("PROTOSIM_REPLAY_INNER", "1")
            .stdout(std::process::Stdio::null())
            .stderr(std::process::Stdio::null())
            .status()
            .unwrap_or_else(|e| harness_error(&format!("cannot spawn the replay: {e}")));
        let prop = j.get("property").and_then(|p| p.as_str()).unwrap_or("?");
        return if status.code().is_none() {
            println!("reproduced: the process replaying this scenario died ({status})");
            println!("VIOLATION property={prop} replay={file}");
            1
        } else {
            println!("not reproduced: the scenario is checked to the end without the process dying");
            0
        };
    }
    let prop = j.get("property").and_then(|p| p.as_str()).and_then(Prop::parse).unwrap_or_else(|| harness_error("replay file: property"));
    let rule = j.get("rule").and_then(|p| p.as_str()).unwrap_or_else(|| harness_error("replay file: rule")).to_string();
    let mut scn = Scenario::from_json(j.get("scenario").unwrap_or_else(|| harness_error("replay file: scenario")))
        .unwrap_or_else(|| harness_error("replay file: cannot decode scenario"));
    // the program is looked up by name so that a replay survives catalogue changes
    match env.cat.programs.iter().position(|p| p.name == scn.program_name) {
        Some(i) => scn.program = i,
        None => harness_error("replay file: program not in this catalogue (was it found with a regenerated catalogue? rebuild with PROTOSIM_GENERATED set to the file named in the replay)"),
    }
    let want_fp = j.get("expected_fingerprint").and_then(|f| f.as_str()).unwrap_or("").to_string();
    let retries = if j.get("code_under_test_nondeterministic").and_then(|b| b.as_bool()).unwrap_or(false) { 200 } else { 1 };
    let mut earlier: Vec<Scenario> = vec![];
    if let Some(list) = j.get("earlier_scenarios_of_the_session").and_then(|l| l.as_array()) {
        for e in list {
            let mut s = Scenario::from_json(e).unwrap_or_else(|| harness_error("replay file: cannot decode an earlier scenario"));
            match env.cat.programs.iter().position(|p| p.name == s.program_name) {
                Some(i) => s.program = i,
                None => harness_error("replay file: an earlier scenario's program is not in this catalogue"),
            }
            earlier.push(s);
        }
    }
    let mut found = vec![];
    for _ in 0..retries {
        found = if earlier.is_empty() {
            let mut st = Stats::default();
            check(prop, env, &scn, &mut st)
        } else {
            checks::check_after(prop, env, &earlier, &scn)
        };
        if found.iter().any(|f| f.rule == rule) {
            break;
        }
    }
    if !earlier.is_empty() {
        println!("replay: first the {} scenarios that preceded it in its session, on the same thread", earlier.len());
    }
    println!("replay: property={} rule={rule} program={} document={}", prop.id(), scn.program_name, scn.doc.render());
    match found.iter().find(|f| f.rule == rule) {
        Some(f) => {
            println!("reproduced: {} [{}]", f.msg, f.label);
            for h in &f.history {
                println!("    {h}");
            }
            println!("    {}", f.outcome);
            println!("history fingerprint {} (recorded {want_fp}): {}", f.fingerprint, if f.fingerprint.to_string() == want_fp { "identical" } else { "DIFFERENT" });
            println!("VIOLATION property={} replay={file}", prop.id());
            1
        }
        None => {
            println!("not reproduced: the scenario passes rule {rule} on the current tree ({} other findings)", found.len());
            0
        }
    }
}

fn main() {
    let args: Vec<String> = std::env::args().collect();
    // panics of the code under test are caught and recorded run by run; printing them would drown
    // the log (VERIF_SHOW_PANICS=1 prints them, to debug the harness itself)
    if std::env::var("VERIF_SHOW_PANICS").is_ok() {
        std::panic::set_hook(Box::new(|i| eprintln!("panic: {i}")));
    } else {
        std::panic::set_hook(Box::new(|_| {}));
    }
    let env = build_env();
    match args.get(1).map(|s| s.as_str()) {
        Some("programs") => {
            for (i, p) in env.cat.programs.iter().enumerate() {
                println!("{i:4} {:40} {} [{}]", p.name, env.cat.rust_ty(&p.root), p.origin);
            }
        }
        Some("replay") => {
            let file = args.get(2).unwrap_or_else(|| harness_error("replay needs a file"));
            std::process::exit(cmd_replay(&env, file));
        }
        Some("try") => {
            let prop = args.get(2).and_then(|s| Prop::parse(s)).unwrap_or_else(|| harness_error("try needs a property id"));
            let from: u64 = args.get(3).and_then(|s| s.parse().ok()).unwrap_or_else(|| harness_error("try needs <from> <to>"));
            let to: u64 = args.get(4).and_then(|s| s.parse().ok()).unwrap_or(from);
            std::process::exit(cmd_try(&env, prop, from, to));
        }
        Some("check") => {
            let prop = args.get(2).and_then(|s| Prop::parse(s)).unwrap_or_else(|| harness_error("check needs a property id handled by engine A"));
            std::process::exit(cmd_check(&env, prop, &args));
        }
        _ => harness_error("usage: protosim check <Cxx> [...] | replay <file> | programs"),
    }
}

/// The check proper runs in a child process (the *worker*); this process only supervises it. A
/// process that dies (stack overflow, abort: `deserialize` returned neither Ok nor Err and no
/// panic could be caught) takes its memory with it, so each session keeps the index of the
/// scenario it is about to check in a marker file; the supervisor then re-runs the candidates one
/// by one, each in a process of its own, to find the one that kills it.
fn cmd_check(env: &Env, prop: Prop, args: &[String]) -> i32 {
    if std::env::var("PROTOSIM_WORKER").is_ok() {
        return cmd_check_worker(env, prop, args);
    }
    let exe = std::env::current_exe().unwrap_or_else(|e| harness_error(&format!("current_exe: {e}")));
    let mdir = format!("/verif/.work/markers_{}", std::process::id());
    let _ = std::fs::remove_dir_all(&mdir);
    std::fs::create_dir_all(&mdir).unwrap_or_else(|e| harness_error(&format!("cannot create {mdir}: {e}")));
    let status = std::process::Command::new(&exe)
        .args(&args[1..])
        .env("PROTOSIM_WORKER", &mdir)
        .status()
        .unwrap_or_else(|e| harness_error(&format!("cannot spawn the worker: {e}")));
    if let Some(c) = status.code() {
        let _ = std::fs::remove_dir_all(&mdir);
        return c;
    }
    let rc = process_died(env, prop, args, &exe, &mdir, &format!("{status}"));
    let _ = std::fs::remove_dir_all(&mdir);
    rc
}

/// `protosim try <prop> <from> <to>`: check scenarios from..=to of this seed, one after the other
fn cmd_try(env: &Env, prop: Prop, from: u64, to: u64) -> i32 {
    let seed: u64 = std::env::var("VERIF_SEED").ok().and_then(|s| s.parse().ok()).unwrap_or(1);
    let profile = checks::profile(prop, env);
    for i in from..=to {
        let scn = scenario::generate(&env.cat, &env.feats, &profile, simcore::rng::mix(seed, prop.tag(), 0), i);
        let mut st = Stats::default();
        let _ = check(prop, env, &scn, &mut st);
    }
    0
}

fn process_died(env: &Env, prop: Prop, _args: &[String], exe: &std::path::Path, mdir: &str, how: &str) -> i32 {
    println!("the worker process died ({how}): looking for the scenario that kills it");
    let seed: u64 = std::env::var("VERIF_SEED").ok().and_then(|s| s.parse().ok()).unwrap_or(1);
    let profile = checks::profile(prop, env);
    let mut candidates: Vec<(u64, u64)> = vec![];
    if let Ok(rd) = std::fs::read_dir(mdir) {
        for e in rd.flatten() {
            let from: Option<u64> = e.file_name().to_string_lossy().strip_prefix('s').and_then(|x| x.parse().ok());
            let cur: Option<u64> = std::fs::read_to_string(e.path()).ok().and_then(|t| t.trim().parse().ok());
            if let (Some(f), Some(c)) = (from, cur) {
                candidates.push((f, c));
            }
        }
    }
    candidates.sort();
    let dies = |from: u64, to: u64| -> bool {
        std::process::Command::new(exe)
            .args(["try", prop.id(), &from.to_string(), &to.to_string()])
            .stdout(std::process::Stdio::null())
            .stderr(std::process::Stdio::null())
            .status()
            .map(|s| s.code().is_none())
            .unwrap_or(false)
    };
    for (from, cur) in &candidates {
        // alone first; then with the earlier scenarios of its session
        let (first, earlier_needed) = if dies(*cur, *cur) {
            (*cur, false)
        } else if dies(*from, *cur) {
            (*from, true)
        } else {
            continue;
        };
        let scn = scenario::generate(&env.cat, &env.feats, &profile, simcore::rng::mix(seed, prop.tag(), 0), *cur);
        let earlier: Vec<Scenario> = if earlier_needed {
            (first..*cur).map(|j| scenario::generate(&env.cat, &env.feats, &profile, simcore::rng::mix(seed, prop.tag(), 0), j)).collect()
        } else {
            vec![]
        };
        let f = Found {
            rule: "H-total",
            msg: format!(
                "the process died ({how}) while this scenario was being checked: deserialize returned neither Ok nor Err, and nothing could be caught (a stack overflow or an abort){}",
                if earlier_needed { "; only after the earlier scenarios of its session" } else { "" }
            ),
            label: "-".to_string(),
            history: vec![],
            outcome: "process death".to_string(),
            fingerprint: 0,
        };
        let path = write_replay(prop, &scn, &f, &scn, 0, false, &earlier, true);
        println!("violation: rule=H-total program={} [process death]", scn.program_name);
        println!("  {}", f.msg);
        println!("  document: {}", scn.doc.render());
        println!("VIOLATION property={} replay={path}", prop.id());
        return 1;
    }
    harness_error("the worker process died, but no scenario in flight kills a process of its own (out of memory? killed from outside?)")
}

fn cmd_check_worker(env: &Env, prop: Prop, args: &[String]) -> i32 {
    let marker_dir = std::env::var("PROTOSIM_WORKER").unwrap_or_default();
    let tier = arg_value(args, "--tier").or_else(|| std::env::var("VERIF_TIER").ok()).unwrap_or_else(|| "quick".to_string());
    let tier = if tier == "thorough" { "thorough" } else { "quick" };
    let seed: u64 = std::env::var("VERIF_SEED").ok().and_then(|s| s.parse().ok()).unwrap_or(1);
    let b = budget(prop, tier);
    let n_scenarios: u64 = arg_value(args, "--scenarios").and_then(|s| s.parse().ok()).unwrap_or(b.scenarios);
    let max_seconds: f64 = arg_value(args, "--max-seconds").and_then(|s| s.parse().ok()).unwrap_or(b.max_seconds);
    let threads: usize = arg_value(args, "--threads")
        .and_then(|s| s.parse().ok())
        .unwrap_or_else(|| std::thread::available_parallelism().map(|n| n.get()).unwrap_or(4).min(16));
    let fp_log = arg_value(args, "--fp-log");
    let evidence_path = arg_value(args, "--evidence").unwrap_or_else(|| format!("/verif/evidence/{}.json", prop.id()));
    println!("VERIF_SEED={seed} property={} tier={tier} scenarios<={n_scenarios} threads={threads} catalogue_seed={} programs={}", prop.id(), protosim::generated::PROGRAM_SEED, env.cat.programs.len());

    if prop == Prop::C14 {
        if let Err(e) = protosim::parseback::selftest_distance() {
            harness_error(&format!("edit-distance self-test failed: {e}"));
        }
    }
    let profile = checks::profile(prop, env);
    if profile.programs.is_empty() {
        harness_error("no eligible program in the catalogue for this property");
    }
    let start = Instant::now();
    let next = AtomicU64::new(0);
    let stop = AtomicBool::new(false);
    let total = Mutex::new(Stats::default());
    let violations: Mutex<Vec<(u64, Scenario, Vec<Found>, u64)>> = Mutex::new(vec![]);
    let fps: Mutex<Vec<(u64, u64)>> = Mutex::new(vec![]);
    // A chunk of consecutive scenarios is a *session*: it runs on a thread of its own, so that
    // whatever the code under test may keep per thread has a history that is a pure function of
    // (seed, first scenario of the session) and can be replayed.
    let chunk: u64 = SESSION_LEN;
    std::thread::scope(|s| {
        for _ in 0..threads {
            s.spawn(|| {
                let mut st = Stats::default();
                let mut local_fps: Vec<(u64, u64)> = vec![];
                loop {
                    if stop.load(Ordering::Relaxed) {
                        break;
                    }
                    let from = next.fetch_add(chunk, Ordering::Relaxed);
                    if from >= n_scenarios {
                        break;
                    }
                    let (st_ref, fps_ref) = (&mut st, &mut local_fps);
                    let (profile, violations, fp_log) = (&profile, &violations, &fp_log);
                    let marker_dir = &marker_dir;
                    let session = move || {
                    let (st, local_fps) = (st_ref, fps_ref);
                    let marker_path = format!("{marker_dir}/s{from}");
                    let marker = if marker_dir.is_empty() { None } else { std::fs::File::create(&marker_path).ok() };
                    for i in from..(from + chunk).min(n_scenarios) {
                        if let Some(m) = &marker {
                            use std::os::unix::fs::FileExt;
                            let _ = m.write_at(format!("{i:020}").as_bytes(), 0);
                        }
                        let scn = scenario::generate(&env.cat, &env.feats, profile, simcore::rng::mix(seed, prop.tag(), 0), i);
                        for (k, n) in scn.src_faults.as_pairs() {
                            st.bump(&format!("{k}_injected"), n as u64);
                        }
                        st.bump("LEAF-FAIL_configured", scn.leaf_faults.len() as u64);
                        st.bump("CB-FAIL_configured", scn.cb_faults.len() as u64);
                        if scn.has_dup {
                            st.bump("scenarios_with_duplicate_keys", 1);
                        }
                        if scn.has_exotic {
                            st.bump("scenarios_with_exotic_values", 1);
                        }
                        if scn.has_nonfinite {
                            st.bump("scenarios_with_nonfinite_floats", 1);
                        }
                        if let Some(sp) = &scn.special {
                            st.bump(&format!("probe_special_{sp}"), 1);
                        }
                        if scn.src_faults.total() == 0 && scn.leaf_faults.is_empty() && scn.cb_faults.is_empty() {
                            st.bump("scenarios_without_any_fault", 1);
                        }
                        let runs_before = st.runs;
                        let (found, scn_fp) = checks::check_fp(prop, env, &scn, st);
                        if fp_log.is_some() {
                            local_fps.push((i, scn_fp));
                        }
                        if i < 400 {
                            // a written-out sample: the scenario and its keep-going history
                            let cfg = RunCfg {
                                script: Script::AllC,
                                leaf_faults: scn.leaf_faults.clone(),
                                cb_faults: scn.cb_faults.clone(),
                                swap_remove: scn.swap_remove,
                                source: Source::Sim,
                                err: ErrParty::Sim,
                            };
                            let r = run(&env.runners[scn.program], &scn.doc, &cfg);
                            if i < 2 || r.events.len() >= 6 {
                            st.samples.push(serde_json::json!({
                                "run_index": i,
                                "program": scn.program_name,
                                "target_type": env.cat.rust_ty(&env.cat.programs[scn.program].root),
                                "delivered_document": scn.doc.render(),
                                "leaf_faults": scn.leaf_faults.iter().map(|p| simcore::doc::path_str(p)).collect::<Vec<_>>(),
                                "callback_faults": scn.cb_faults.len(),
                                "remove_discipline": if scn.swap_remove {"swap"} else {"shift"},
                                "random_answer_script": scn.script.to_json(),
                                "simulated_calls_made_for_this_scenario": st.runs - runs_before,
                                "keep_going_history": r.events.iter().take(16).map(|e| e.render()).collect::<Vec<_>>(),
                                "keep_going_events": r.events.len(),
                                "keep_going_outcome": r.outcome.render(),
                            }));
                            }
                        }
                        if !found.is_empty() {
                            violations.lock().unwrap().push((i, scn, found, from));
                        }
                    }
                    if marker.is_some() {
                        let _ = std::fs::remove_file(&marker_path);
                    }
                    };
                    if std::thread::scope(|s2| s2.spawn(session).join()).is_err() {
                        harness_error("a session thread died");
                    }
                    if start.elapsed().as_secs_f64() > max_seconds {
                        stop.store(true, Ordering::Relaxed);
                    }
                }
                total.lock().unwrap().merge(st);
                fps.lock().unwrap().extend(local_fps);
            });
        }
    });
    let mut stats = total.into_inner().unwrap();
    let wall = start.elapsed().as_secs_f64();
    let mut violations = violations.into_inner().unwrap();
    violations.sort_by_key(|v| v.0);
    stats.samples.sort_by_key(|s| s.get("run_index").and_then(|x| x.as_u64()).unwrap_or(0));
    // keep the first two scenarios and the first three with a longer history
    {
        let mut kept: Vec<serde_json::Value> = vec![];
        let mut rich = 0;
        for smp in stats.samples.drain(..) {
            let idx = smp.get("run_index").and_then(|x| x.as_u64()).unwrap_or(0);
            let n = smp.get("keep_going_events").and_then(|x| x.as_u64()).unwrap_or(0);
            if idx < 2 {
                kept.push(smp);
            } else if n >= 6 && rich < 3 {
                rich += 1;
                kept.push(smp);
            }
        }
        stats.samples = kept;
    }

    if let Some(path) = fp_log {
        let mut v = fps.into_inner().unwrap();
        v.sort();
        let mut f = std::fs::File::create(&path).unwrap_or_else(|e| harness_error(&format!("cannot write {path}: {e}")));
        for (i, fp) in v {
            let _ = writeln!(f, "{i} {fp:016x}");
        }
    }

    // --- violations: minimise, write replay, verify in a fresh process, report ------------------
    let known = known_findings();
    let mut exit = 0;
    let mut reported_rules: Vec<&'static str> = vec![];
    let mut known_printed: Vec<String> = vec![];
    let mut n_violation_lines = 0;
    let mut unpinned = 0;
    let n_violating_scenarios = violations.len();
    for (idx, scn, found, session_start) in &violations {
        let f = &found[0];
        if reported_rules.contains(&f.rule) && n_violation_lines + known_printed.len() >= 1 {
            continue;
        }
        // every verification step below runs the scenario on a thread of its own
        let (mut min_scn, attempts) = minimise(prop, env, scn, f.rule);
        let mut st = Stats::default();
        let refound = checks::check_isolated(prop, env, &min_scn, &mut st);
        let mut nondeterministic = false;
        let mut earlier: Vec<Scenario> = vec![];
        let mf = match refound.iter().find(|x| x.rule == f.rule) {
            Some(x) => x.clone(),
            None => {
                // The harness is a pure function of the scenario (./check determinism), so the code
                // under test gave two different histories for one scenario: that is itself a
                // violation (behaviour must depend only on the inputs and the answers so far).
                // Report the original scenario; its replay is retried since it cannot be exact.
                nondeterministic = true;
                min_scn = scn.clone();
                let mut again = None;
                for _ in 0..50 {
                    let mut st = Stats::default();
                    if let Some(x) = checks::check_isolated(prop, env, scn, &mut st).iter().find(|x| x.rule == f.rule) {
                        again = Some(x.clone());
                        break;
                    }
                }
                match again {
                    Some(x) => x,
                    None => {
                        // Alone on a fresh thread the scenario passes, every time. What is left is
                        // the history: the calls made earlier in the same session, on the same
                        // thread. Re-run the session up to this scenario; if the violation comes
                        // back, the outcome of a call depends on earlier, unrelated calls.
                        nondeterministic = false;
                        let sess: Vec<Scenario> = (*session_start..*idx)
                            .map(|j| scenario::generate(&env.cat, &env.feats, &profile, simcore::rng::mix(seed, prop.tag(), 0), j))
                            .collect();
                        let hit = |earlier: &[Scenario]| checks::check_after(prop, env, earlier, scn).into_iter().find(|x| x.rule == f.rule);
                        match hit(&sess) {
                            None => {
                                unpinned += 1;
                                continue;
                            }
                            Some(full) => {
                                // shortest suffix of the session (by doubling) that still brings it back
                                let mut keep = sess.len();
                                let mut best = full;
                                let mut n = 1usize;
                                while n < sess.len() {
                                    if let Some(x) = hit(&sess[sess.len() - n..]) {
                                        keep = n;
                                        best = x;
                                        break;
                                    }
                                    n *= 2;
                                }
                                earlier = sess[sess.len() - keep..].to_vec();
                                let mut x = best;
                                x.msg = format!(
                                    "only after {} earlier calls' worth of scenarios on the same thread (alone on a fresh thread the same scenario passes): the outcome of a call depends on earlier, unrelated calls | {}",
                                    earlier.len(),
                                    x.msg
                                );
                                x
                            }
                        }
                    }
                }
            }
        };
        if let Some(k) = match_known(&known, prop, &mf, &min_scn) {
            let what = k.get("what").and_then(|w| w.as_str()).unwrap_or("");
            let line = format!("KNOWN-FINDING: property={} {what}", prop.id());
            if !known_printed.contains(&line) {
                println!("{line}");
                known_printed.push(line);
            }
            reported_rules.push(f.rule);
            continue;
        }
        reported_rules.push(f.rule);
        let path = write_replay(prop, &min_scn, &mf, scn, attempts, nondeterministic, &earlier, false);
        // the replay file must reproduce the violation in a fresh process
        let exe = std::env::current_exe().unwrap_or_else(|e| harness_error(&format!("current_exe: {e}")));
        let out = std::process::Command::new(exe).arg("replay").arg(&path).output();
        match out {
            Ok(o) if o.status.code() == Some(1) => {}
            Ok(o) if nondeterministic || n_violation_lines > 0 => {
                // code that behaves differently from run to run cannot be pinned every time; what
                // has been reported stands, this one is left out
                println!("note: the replay of {path} did not reproduce in a fresh process (exit {:?}); not reported", o.status.code());
                continue;
            }
            Ok(o) => harness_error(&format!("replay of {path} in a fresh process did not reproduce the violation (exit {:?})", o.status.code())),
            Err(e) => harness_error(&format!("cannot spawn replay: {e}")),
        }
        if !earlier.is_empty() {
            println!("note: history-dependent: the replay file first re-runs the {} scenarios that preceded this one in its session", earlier.len());
        }
        if nondeterministic {
            println!("note: the code under test is NOT deterministic for this scenario (same scenario, different histories); the replay file is retried up to 200 times");
        }
        println!("violation: rule={} program={} [{}]", mf.rule, min_scn.program_name, mf.label);
        println!("  {}", mf.msg);
        println!("  minimised document: {}", min_scn.doc.render());
        println!("VIOLATION property={} replay={path}", prop.id());
        n_violation_lines += 1;
        exit = 1;
        if n_violation_lines >= 3 {
            break;
        }
    }

    if unpinned > 0 && exit == 0 && known_printed.is_empty() {
        harness_error("violating scenarios were seen but none fails again when re-run: nondeterminism that cannot be pinned on a scenario");
    }
    // --- evidence ---------------------------------------------------------------------------------
    let mut counters: BTreeMap<String, u64> = stats.counters.clone();
    counters.entry("LEAF-FAIL_fired".into()).or_insert(0);
    let probes: BTreeMap<String, u64> = counters.iter().filter(|(k, _)| k.starts_with("probe_")).map(|(k, v)| (k.clone(), *v)).collect();
    let faults: BTreeMap<String, u64> = counters
        .iter()
        .filter(|(k, _)| k.starts_with("SRC-") || k.starts_with("LEAF-") || k.starts_with("CB-") || k.starts_with("break_answers"))
        .map(|(k, v)| (k.clone(), *v))
        .collect();
    let other: BTreeMap<String, u64> = counters
        .iter()
        .filter(|(k, _)| !(k.starts_with("probe_") || k.starts_with("SRC-") || k.starts_with("LEAF-") || k.starts_with("CB-") || k.starts_with("break_answers")))
        .map(|(k, v)| (k.clone(), *v))
        .collect();
    let evidence = serde_json::json!({
        "property_id": prop.id(),
        "tier": tier,
        "seed": seed,
        "level": level(prop),
        "coverage": {
            "evaluations": stats.runs,
            "distinct_nontrivial": stats.nontrivial_fingerprints.len(),
            "rule": rule_text(prop),
            "samples": stats.samples,
            "scenarios": stats.scenarios,
            "simulated_calls": stats.runs,
            "simulated_calls_per_hour": if wall > 0.0 { (stats.runs as f64 / wall * 3600.0) as u64 } else { 0 },
            "scenarios_per_hour": if wall > 0.0 { (stats.scenarios as f64 / wall * 3600.0) as u64 } else { 0 },
            "seeds": {"VERIF_SEED": seed, "scenario_index_from": 0, "scenario_index_to_exclusive_upper_bound": n_scenarios, "scenarios_completed": stats.scenarios},
            "simulated_time": {"unit": "history events (logical time; deserr has no clock)", "events": stats.events},
            "sessions": {"scenarios_per_session": SESSION_LEN, "sessions_run": (stats.scenarios + SESSION_LEN - 1) / SESSION_LEN,
                         "what": "consecutive scenarios checked one after the other on an OS thread of their own; a violation that only appears after the earlier calls of its session is reported with them in its replay file"},
            "distinct_histories": stats.fingerprints.len(),
            "distinct_nontrivial_program_history_pairs": stats.nontrivial_program_fp.len(),
            "programs_exercised": stats.programs_used.len(),
            "programs_in_catalogue": env.cat.programs.len(),
            "faults_and_answers": faults,
            "reach_probes": probes,
            "counters": other,
            "catalogue": {"program_seed": protosim::generated::PROGRAM_SEED, "generated_types": protosim::generated::N_GEN, "types": env.cat.types.len(), "programs": env.cat.programs.len(), "uniform_fallback": protosim::generated::UNIFORM},
            "components": {
                "real": ["deserr container impls (src/impls.rs)", "derive output (derive/src)", "serde_json bridge (src/serde_json.rs)", "serde_cs bridge", "JsonError", "QueryParamError"],
                "simulated": ["value source (SimValue: delivery order, remove discipline, duplicates, exotic values)", "error type (SimErr/SimErrB: scripted Continue/Break answers)", "leaf deserializer (Probe)", "user callbacks (from/try_from/map/validate/missing_field_error/deny_unknown_fields)"]
            },
            "violating_scenarios": n_violating_scenarios,
            "known_findings_matched": known_printed,
            "exhaustive": false
        },
        "assumptions": [
            "the error type keeps what it is handed (SimErr does, and records when a value dies unconsumed)",
            "Sequence::len and Map::len are truthful (never faulted)",
            "generated identifiers restricted to where camelCase is unambiguous; hand-specified ones cover digits, acronyms, raw identifiers, trailing underscores, non-ASCII",
            "model rules only on duplicate-free, non-exotic payloads under keep-going answers"
        ],
        "wall_s": wall,
        "violations": n_violation_lines
    });
    if let Some(dir) = std::path::Path::new(&evidence_path).parent() {
        let _ = std::fs::create_dir_all(dir);
    }
    std::fs::write(&evidence_path, serde_json::to_string_pretty(&evidence).unwrap())
        .unwrap_or_else(|e| harness_error(&format!("cannot write evidence {evidence_path}: {e}")));
    println!(
        "{}: {} scenarios, {} simulated calls, {} distinct histories ({} non-trivial), {:.1}s, {} violating scenarios",
        prop.id(),
        stats.scenarios,
        stats.runs,
        stats.fingerprints.len(),
        stats.nontrivial_fingerprints.len(),
        wall,
        n_violating_scenarios
    );
    // reach: the rare conditions this property cares about must actually have been hit
    let required: &[&str] = match prop {
        Prop::C01 => &["probe_break_with_nonempty_accumulator", "LEAF-FAIL_fired", "CB-FAIL_fired", "scenarios_with_duplicate_keys", "scenarios_with_exotic_values", "probe_two_or_more_failing_entries_in_one_object", "probe_try_from_failure_with_nonempty_accumulator"],
        Prop::C02 => &["probe_two_or_more_independent_faults", "LEAF-FAIL_fired", "CB-FAIL_fired"],
        Prop::C03 => &["break_answers_to_error", "break_answers_to_merge", "probe_break_at_depth_ge3", "probe_break_with_nonempty_accumulator", "probe_field_error_type_answered_break", "first_report_linkage_checked"],
        Prop::C04 => &["handover_positions_checked", "probe_report_at_index_gt0", "break_answers_to_merge"],
        Prop::C06 => &["SRC-ARITY_injected", "SRC-BADKEY_injected", "LEAF-FAIL_fired"],
        Prop::C07 => &["SRC-NEARMISS_injected", "probe_swap_remove_moved_a_member"],
        Prop::C08 => &["expected_missing_field_reports", "probe_missing_field_together_with_invalid_sibling", "SRC-DROP_injected", "SRC-NULL_injected"],
        Prop::C09 => &["expected_unknown_key_reports", "x_spurious_pairs", "SRC-NEARMISS_injected"],
        Prop::C10 => &["probe_unknown_tag_value", "probe_swap_remove_moved_a_member", "SRC-TAG_injected"],
        Prop::C11 => &["CB-FAIL_fired", "LEAF-FAIL_fired", "probe_field_error_type_answered_break", "probe_try_from_failure_with_nonempty_accumulator"],
        Prop::C12 => &["scenarios_with_duplicate_keys", "scenarios_with_exotic_values", "break_answers_to_error"],
        Prop::C14 => &["parseback_checked", "parseback_at_root", "parseback_at_depth_ge3", "first_report_linkage_checked", "first_report_checked_against_reference_interpreter"],
        Prop::C15 => &["x_perm_orders_compared", "x_perm_scenarios_with_all_orders", "probe_swap_remove_moved_a_member"],
    };
    let stuck: Vec<&&str> = required.iter().filter(|k| stats.counters.get(**k).copied().unwrap_or(0) == 0).collect();
    if !stuck.is_empty() {
        println!("WARNING: reach probes stuck at zero: {stuck:?}");
        if exit == 0 && tier == "thorough" {
            harness_error("a reach probe is stuck at zero in the thorough tier: the workload or fault mix must change");
        }
    }
    // a probe stuck at zero in the thorough tier is a harness problem, never a violation
    if exit == 0 && stats.nontrivial_fingerprints.len() < 2 {
        harness_error("fewer than two distinct non-trivial histories: the workload does not reach the property's subject");
    }
    exit
}
