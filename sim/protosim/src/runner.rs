//! Monomorphised entry points into `deserr::deserialize` for one catalogue program, for each
//! choice of value-source party and error-type party.

use crate::history::{self, Event, Outcome, Script};
use crate::parties::{SimErr, SimValue, ToModel};
use deserr::errors::{JsonError, QueryParamError};
use deserr::Deserr;
use simcore::doc::{Doc, Path};
use simcore::mval::MVal;
use std::panic::{catch_unwind, AssertUnwindSafe};

pub struct Runners {
    pub sim: fn(Doc) -> Result<MVal, SimErr>,
    pub json_src: fn(serde_json::Value) -> Result<MVal, SimErr>,
    pub jsonerr: fn(Doc) -> Result<MVal, String>,
    pub jsonerr_json_src: fn(serde_json::Value) -> Result<MVal, String>,
    pub qperr: fn(Doc) -> Result<MVal, String>,
}

fn sim<T: Deserr<SimErr> + ToModel>(d: Doc) -> Result<MVal, SimErr> {
    deserr::deserialize::<T, _, SimErr>(SimValue::root(d)).map(|v| v.to_model())
}
fn json_src<T: Deserr<SimErr> + ToModel>(d: serde_json::Value) -> Result<MVal, SimErr> {
    deserr::deserialize::<T, _, SimErr>(d).map(|v| v.to_model())
}
fn jsonerr<T: Deserr<JsonError> + ToModel>(d: Doc) -> Result<MVal, String> {
    deserr::deserialize::<T, _, JsonError>(SimValue::root(d))
        .map(|v| v.to_model())
        .map_err(|e| e.to_string())
}
fn jsonerr_json_src<T: Deserr<JsonError> + ToModel>(d: serde_json::Value) -> Result<MVal, String> {
    deserr::deserialize::<T, _, JsonError>(d)
        .map(|v| v.to_model())
        .map_err(|e| e.to_string())
}
fn qperr<T: Deserr<QueryParamError> + ToModel>(d: Doc) -> Result<MVal, String> {
    deserr::deserialize::<T, _, QueryParamError>(SimValue::root(d))
        .map(|v| v.to_model())
        .map_err(|e| e.to_string())
}

pub fn runners_for<T>() -> Runners
where
    T: Deserr<SimErr> + Deserr<JsonError> + Deserr<QueryParamError> + ToModel,
{
    Runners {
        sim: sim::<T>,
        json_src: json_src::<T>,
        jsonerr: jsonerr::<T>,
        jsonerr_json_src: jsonerr_json_src::<T>,
        qperr: qperr::<T>,
    }
}

#[derive(Clone, Copy, Debug, PartialEq, Eq)]
pub enum Source {
    Sim,
    Json,
}

#[derive(Clone, Copy, Debug, PartialEq, Eq)]
pub enum ErrParty {
    Sim,
    JsonError,
    QueryParamError,
}

#[derive(Clone, Debug)]
pub struct RunCfg {
    pub script: Script,
    pub leaf_faults: Vec<Path>,
    pub cb_faults: Vec<(u32, u64)>,
    pub swap_remove: bool,
    pub source: Source,
    pub err: ErrParty,
}

pub struct Run {
    pub events: Vec<Event>,
    pub outcome: Outcome,
    pub decisions: usize,
    pub removes: u32,
    pub swap_moved: u32,
}

fn panic_msg(p: Box<dyn std::any::Any + Send>) -> String {
    if let Some(s) = p.downcast_ref::<&str>() {
        s.to_string()
    } else if let Some(s) = p.downcast_ref::<String>() {
        s.clone()
    } else {
        "non-string panic payload".to_string()
    }
}

/// One simulated call: a pure function of (program, document, configuration).
pub fn run(r: &Runners, doc: &Doc, cfg: &RunCfg) -> Run {
    history::reset(cfg.script.clone(), cfg.leaf_faults.clone(), cfg.cb_faults.clone(), cfg.swap_remove);
    let outcome = match (cfg.err, cfg.source) {
        (ErrParty::Sim, src) => {
            let res = catch_unwind(AssertUnwindSafe(|| match src {
                Source::Sim => (r.sim)(doc.clone()),
                Source::Json => (r.json_src)(doc.to_json()),
            }));
            match res {
                Ok(Ok(v)) => Outcome::Ok(v),
                Ok(Err(e)) => {
                    let (vid, reports) = e.consume();
                    Outcome::Err { vid, reports }
                }
                Err(p) => Outcome::Panic(panic_msg(p)),
            }
        }
        (party, src) => {
            let res = catch_unwind(AssertUnwindSafe(|| match (party, src) {
                (ErrParty::JsonError, Source::Sim) => (r.jsonerr)(doc.clone()),
                (ErrParty::JsonError, Source::Json) => (r.jsonerr_json_src)(doc.to_json()),
                (_, _) => (r.qperr)(doc.clone()),
            }));
            match res {
                Ok(Ok(v)) => Outcome::Ok(v),
                Ok(Err(m)) => Outcome::ErrMsg(m),
                Err(p) => Outcome::Panic(panic_msg(p)),
            }
        }
    };
    let (decisions, removes, swap_moved) = history::CTX.with(|c| {
        let c = c.borrow();
        (c.decisions, c.removes, c.swap_moved_known)
    });
    Run { events: history::take_events(), outcome, decisions, removes, swap_moved }
}
