pub mod c14;
pub mod checks;
pub mod history;
pub mod minimise;
pub mod parseback;
pub mod parties;
pub mod rules;
pub mod runner;
pub mod scenario;

#[allow(non_snake_case, non_camel_case_types, dead_code, unused_imports, clippy::all)]
pub mod generated {
    include!(env!("PROTOSIM_GENERATED_PATH"));
}
