pub mod history;
pub mod parties;
pub mod runner;

#[allow(non_snake_case, non_camel_case_types, dead_code, unused_imports, clippy::all)]
pub mod generated {
    include!(env!("PROTOSIM_GENERATED_PATH"));
}
