//! The oracles. History rules need no model and are checked on every run of every
//! configuration; model rules compare a keep-going, duplicate-free run with the reference
//! interpreter; metamorphic rules compare runs with each other.

use crate::history::{Event, KindSnap, Outcome, Stage};
use crate::runner::Run;
use simcore::doc::{is_prefix, path_str, Doc, Path};
use simcore::model::{CallStage, ExpCall, ExpClass, ExpReport, Expect};
use std::collections::HashMap;

#[derive(Clone, Debug)]
pub struct Violation {
    pub rule: &'static str,
    pub msg: String,
}

fn v(rule: &'static str, msg: String) -> Violation {
    Violation { rule, msg }
}

// ---------------------------------------------------------------------------------------------
// history rules
// ---------------------------------------------------------------------------------------------

pub fn minted(events: &[Event]) -> Vec<u32> {
    events
        .iter()
        .filter_map(|e| match e {
            Event::Report { rid, .. } | Event::Foreign { rid, .. } => Some(*rid),
            _ => None,
        })
        .collect()
}

pub fn h_total(run: &Run, out: &mut Vec<Violation>) {
    if let Outcome::Panic(m) = &run.outcome {
        out.push(v("H-total", format!("deserialize panicked: {m}")));
    }
}

pub fn h_ok_silent(run: &Run, out: &mut Vec<Violation>) {
    if let Outcome::Ok(_) = &run.outcome {
        for e in &run.events {
            match e {
                Event::Report { .. } | Event::Merge { .. } | Event::Foreign { .. } | Event::Dropped { .. } => {
                    out.push(v(
                        "H-ok-silent",
                        format!("returned Ok although the error type was asked to record: {}", e.render()),
                    ));
                    return;
                }
                _ => {}
            }
        }
    }
}

pub fn h_conserve(run: &Run, out: &mut Vec<Violation>) {
    if let Outcome::Panic(_) = run.outcome {
        return;
    }
    for e in &run.events {
        if let Event::Dropped { vid, reports, .. } = e {
            // find where this value was last seen, to name the container that lost it
            let mut origin = String::from("?");
            for e2 in &run.events {
                if e2.result() == Some(*vid) {
                    origin = e2.render();
                }
            }
            out.push(v(
                "H-conserve",
                format!("error value v{vid} holding reports {reports:?} was dropped, never handed on; it was produced by: {origin}"),
            ));
            return;
        }
    }
    if let Outcome::Err { reports, .. } = &run.outcome {
        let mut a = reports.clone();
        a.sort();
        let mut b = minted(&run.events);
        b.sort();
        if a != b {
            out.push(v(
                "H-conserve",
                format!("returned error holds reports {a:?} but reports {b:?} were made during the call"),
            ));
        }
    }
}

pub fn h_linear(run: &Run, out: &mut Vec<Violation>) {
    if let Outcome::Panic(_) = run.outcome {
        return;
    }
    for e in &run.events {
        if let Event::DroppedUser { token } = e {
            out.push(v("H-linear", format!("user error {token} was never handed to the error type")));
            return;
        }
    }
}

fn next_non_drop(events: &[Event], i: usize) -> Option<usize> {
    let mut j = i + 1;
    while j < events.len() {
        match &events[j] {
            Event::Dropped { .. } | Event::DroppedUser { .. } => j += 1,
            _ => return Some(j),
        }
    }
    None
}

pub fn h_stop(run: &Run, out: &mut Vec<Violation>) {
    if let Outcome::Panic(_) = run.outcome {
        return;
    }
    for (i, e) in run.events.iter().enumerate() {
        if e.brk() != Some(true) {
            continue;
        }
        let val = e.result().unwrap();
        let loc = e.loc().unwrap();
        match next_non_drop(&run.events, i) {
            None => match &run.outcome {
                Outcome::Err { vid, .. } if *vid == val => {}
                other => {
                    out.push(v(
                        "H-stop",
                        format!("after the Break at `{}` the call ended with {} instead of returning v{val}", e.render(), other.render()),
                    ));
                    return;
                }
            },
            Some(j) => match &run.events[j] {
                // a report (or the conversion of a foreign error) answered Break is handed on at the
                // same place or above; a *hand-over* answered Break means the container that asked
                // returns, so the next hand-over is its parent's, strictly above
                // (unless what it handed over is the error a missing_field_error /
                // deny_unknown_fields / validate callback built through E::error: the struct
                // hands that to its own accumulator at its own position)
                Event::Merge { other, loc: mloc, .. }
                    if *other == val
                        && is_prefix(mloc, loc)
                        && (mloc.len() < loc.len() || !is_child_handover(&run.events, i)) => {}
                next => {
                    out.push(v(
                        "H-stop",
                        format!(
                            "after the Break answered to `{}` work continued with `{}` (expected: return, or hand-over of v{val} at a prefix of {})",
                            e.render(),
                            next.render(),
                            path_str(loc)
                        ),
                    ));
                    return;
                }
            },
        }
    }
}

/// event i is a `Merge` whose `other` was not built by a user callback through `E::error`
fn is_child_handover(events: &[Event], i: usize) -> bool {
    let Event::Merge { other, .. } = &events[i] else { return false };
    for j in (0..i).rev() {
        if events[j].result() == Some(*other) {
            return !(matches!(&events[j], Event::Report { .. })
                && j > 0
                && matches!(&events[j - 1], Event::Call { stage: Stage::Missing | Stage::Unknown | Stage::Validate, .. }));
        }
    }
    true
}

/// "The container in which the report was made returns at once: nothing further inside it is
/// examined." The reporter of a Break-answered event located at P is the entity at P, except for
/// a field-level `try_from` failure (a `Foreign` right after the `TryFrom` call), which the
/// enclosing struct reports at the field's key: there the reporter is the struct, parent(P).
/// After the chain of hand-overs that follows the Break, whatever container resumes (because a
/// hand-over was answered Continue) must be an enclosing one: no later event may be located at
/// or beneath the reporter. Only meaningful without duplicate keys.
pub fn h_stop_inside(run: &Run, doc: &Doc, out: &mut Vec<Violation>) {
    if let Outcome::Panic(_) = run.outcome {
        return;
    }
    let ev = &run.events;
    for i in 0..ev.len() {
        if ev[i].brk() != Some(true) {
            continue;
        }
        // a report made inside a user callback (missing_field_error / deny_unknown_fields /
        // validate function building its error through E::error, as the book documents): the
        // callback is where the report was made, and it returns at once by construction; the
        // derive then consults the answer to its own hand-over
        if matches!(&ev[i], Event::Report { .. })
            && i > 0
            && matches!(&ev[i - 1], Event::Call { stage: Stage::Missing | Stage::Unknown | Stage::Validate, .. })
        {
            continue;
        }
        let p = ev[i].loc().unwrap().clone();
        let field_level = matches!(&ev[i], Event::Foreign { .. })
            && i > 0
            && matches!(&ev[i - 1], Event::Call { stage: Stage::TryFrom, .. });
        let reporter: Path = if field_level && !p.is_empty() { p[..p.len() - 1].to_vec() } else { p.clone() };
        // with duplicate keys a path may denote several values; "inside the reporter" is only
        // well defined when the reporter's own path denotes exactly one
        if doc.resolve_all(&reporter).len() != 1 {
            continue;
        }
        // skip the hand-over chain
        let mut cur = ev[i].result().unwrap();
        let mut j = i + 1;
        while j < ev.len() {
            match &ev[j] {
                Event::Merge { other, result, .. } if *other == cur => {
                    cur = *result;
                    j += 1;
                }
                Event::Dropped { .. } | Event::DroppedUser { .. } => j += 1,
                _ => break,
            }
        }
        for e in &ev[j..] {
            let loc = match e {
                Event::Visit { path, .. } => Some(path),
                Event::Call { loc, .. } => loc.as_ref(),
                Event::Report { loc, .. } | Event::Foreign { loc, .. } | Event::Merge { loc, .. } => Some(loc),
                // the source being asked for the next entry of an object, or a member being decoded
                Event::Deliver { at, .. } => Some(at),
                Event::Pull { at, .. } => Some(at),
                Event::Decode { path } => Some(path),
                _ => None,
            };
            if let Some(l) = loc {
                if is_prefix(&reporter, l) {
                    out.push(v(
                        "H-stop",
                        format!(
                            "the container at {} was answered Break (`{}`) yet work inside it went on later: `{}`",
                            path_str(&reporter),
                            ev[i].render(),
                            e.render()
                        ),
                    ));
                    return;
                }
            }
        }
    }
}

/// index of the event that consumed decision number k (0-based)
pub fn decision_index(events: &[Event], k: usize) -> Option<usize> {
    let mut n = 0;
    for (i, e) in events.iter().enumerate() {
        if e.is_decision() {
            if n == k {
                return Some(i);
            }
            n += 1;
        }
    }
    None
}

/// Script C^k B^ω against the keep-going run.
pub fn h_prefix_and_handover(base: &Run, run: &Run, k: usize, handover_only: bool, out: &mut Vec<Violation>) {
    if matches!(run.outcome, Outcome::Panic(_)) || matches!(base.outcome, Outcome::Panic(_)) {
        return;
    }
    let bi = match decision_index(&base.events, k) {
        Some(i) => i,
        None => return, // fewer decisions than k: the script never says Break
    };
    // H-prefix
    if run.events.len() <= bi {
        out.push(v(
            "H-prefix",
            format!("run with Break at decision {k} has only {} events; the keep-going run reaches decision {k} at event {bi}", run.events.len()),
        ));
        return;
    }
    for i in 0..=bi {
        if run.events[i].without_answer() != base.events[i].without_answer() {
            out.push(v(
                "H-prefix",
                format!(
                    "before the Break at decision {k} the run differs from the keep-going run at event {i}: `{}` vs keep-going `{}`",
                    run.events[i].render(),
                    base.events[i].render()
                ),
            ));
            return;
        }
    }
    if !handover_only {
        return;
    }
    // H-handover-only: after decision k only hand-overs of the already built error, towards the root
    let mut cur_val = run.events[bi].result().unwrap();
    let mut cur_loc: Path = run.events[bi].loc().unwrap().clone();
    let mut ids = minted(&run.events[..=bi]);
    ids.sort();
    let mut i = bi;
    while let Some(j) = next_non_drop(&run.events, i) {
        match &run.events[j] {
            Event::Merge { other, loc, result, .. } if *other == cur_val && is_prefix(loc, &cur_loc) => {
                cur_val = *result;
                cur_loc = loc.clone();
            }
            e => {
                out.push(v(
                    "H-handover-only",
                    format!("after the stop at decision {k} something other than a hand-over towards the root happened: `{}`", e.render()),
                ));
                return;
            }
        }
        i = j;
    }
    match &run.outcome {
        Outcome::Err { vid, reports } => {
            let mut r = reports.clone();
            r.sort();
            if *vid != cur_val || r != ids {
                out.push(v(
                    "H-handover-only",
                    format!("after the stop at decision {k} the returned error is v{vid} {r:?}; expected v{cur_val} holding exactly {ids:?}"),
                ));
            }
        }
        other => out.push(v(
            "H-handover-only",
            format!("after a Break the call returned {}", other.render()),
        )),
    }
}

/// Script B^ω: the error returned is exactly report #1 of the keep-going run.
pub fn h_first(base: &Run, run: &Run, out: &mut Vec<Violation>) {
    if matches!(run.outcome, Outcome::Panic(_)) || matches!(base.outcome, Outcome::Panic(_)) {
        return;
    }
    let first = minted(&base.events).first().copied();
    match (first, &run.outcome) {
        (None, Outcome::Ok(_)) => {}
        (Some(r), Outcome::Err { reports, .. }) if *reports == vec![r] => {
            // and it is the same report: same event
            let b = base.events.iter().find(|e| matches!(e, Event::Report { .. } | Event::Foreign { .. }));
            let a = run.events.iter().find(|e| matches!(e, Event::Report { .. } | Event::Foreign { .. }));
            if a.map(|e| e.without_answer()) != b.map(|e| e.without_answer()) {
                out.push(v(
                    "H-first",
                    format!(
                        "always-Break run reported `{}` but the first keep-going report is `{}`",
                        a.map(|e| e.render()).unwrap_or_default(),
                        b.map(|e| e.render()).unwrap_or_default()
                    ),
                ));
            }
        }
        (f, o) => out.push(v(
            "H-first",
            format!("always-Break run returned {} but the first keep-going report is {f:?}", o.render()),
        )),
    }
}

/// What the free text of an `Unexpected` report claims about the value at its location, where
/// the text has one of the shapes the library's own impls use (any other text claims nothing
/// that can be checked): the quoted string and its announced number of characters, the quoted
/// out-of-range number, the quoted unparsable key.
/// `taken_out(key)`: the object at this place is read by a tagged enum whose tag key is `key` - the
/// tag is removed from the object before the variant's fields are read ("its fields are then read
/// from the remaining entries", C10), so a variant field with that very key is missing although
/// the payload, as the source holds it, has a member of that name.
pub fn unexpected_claims(msg: &str, here: &Doc, taken_out: &dyn Fn(&str) -> bool) -> Option<String> {
    fn between<'a>(s: &'a str, open: &str, close: &str) -> Option<&'a str> {
        let a = s.find(open)? + open.len();
        let b = s[a..].rfind(close)? + a;
        Some(&s[a..b])
    }
    if let Some(rest) = msg.split("found the following string of ").nth(1) {
        if let Some((n, tail)) = rest.split_once(" characters: `") {
            if let (Ok(n), Some(quoted)) = (n.parse::<usize>(), tail.strip_suffix('`')) {
                return match here {
                    Doc::Str(s) if s == quoted && s.chars().count() == n => None,
                    Doc::Str(s) if s == quoted => Some(format!("it announces a string of {n} characters; the string there has {}", s.chars().count())),
                    other => Some(format!("it quotes the string `{quoted}`; the value there is {}", other.render())),
                };
            }
        }
    }
    if msg.starts_with("value: `") && (msg.contains("` is too large") || msg.contains("` is too small")) {
        if let Some(q) = between(msg, "value: `", "` is too") {
            let there = match here {
                Doc::Int(x) => Some(x.to_string()),
                Doc::Neg(x) => Some(x.to_string()),
                _ => None,
            };
            return match there {
                Some(t) if t == q => None,
                _ => Some(format!("it quotes the number `{q}`; the value there is {}", here.render())),
            };
        }
    }
    // the harness's own missing_field_error function says which key it was told is missing
    if let Some(rest) = msg.strip_prefix("missing_cb#") {
        if let Some((_, key)) = rest.split_once(':') {
            return match here {
                Doc::Map(m) if m.iter().all(|(k, _)| k != key) => None,
                Doc::Map(_) if taken_out(key) => None,
                Doc::Map(_) => Some(format!("the missing_field_error function was told `{key}` is missing; the object there has it")),
                _ => Some("the position does not hold an object".to_string()),
            };
        }
    }
    if msg.ends_with("but found a zero") {
        return match here {
            Doc::Int(0) | Doc::Neg(0) => None,
            other => Some(format!("it says a zero was found; the value there is {}", other.render())),
        };
    }
    if msg.ends_with("but found an empty string") {
        return match here {
            Doc::Str(s) if s.is_empty() => None,
            other => Some(format!("it says an empty string was found; the value there is {}", other.render())),
        };
    }
    if msg.starts_with("the key \"") && msg.contains("\" could not be deserialized into the key type") {
        if let Some(k) = between(msg, "the key \"", "\" could not be deserialized") {
            return match here {
                Doc::Map(m) if m.iter().any(|(k2, _)| k2 == k) => None,
                _ => Some(format!("it names the key \"{k}\", which the object there does not have")),
            };
        }
    }
    None
}

/// Every event resolved against the document the source holds. With duplicate keys a path may
/// denote several values: a claim must be true of at least one of them.
pub fn h_loc(run: &Run, doc: &Doc, out: &mut Vec<Violation>) {
    let mut rid_loc: HashMap<u32, Path> = HashMap::new();
    for e in &run.events {
        match e {
            Event::Visit { path, digest, .. } => {
                let here = doc.resolve_all(path);
                if here.is_empty() {
                    out.push(v("H-loc", format!("a leaf was handed location {} which does not exist in the payload", path_str(path))));
                    return;
                }
                if !here.iter().any(|d| d.digest() == *digest) {
                    out.push(v(
                        "H-loc",
                        format!(
                            "a leaf was handed location {} but the value it was given is not the value at that position ({})",
                            path_str(path),
                            here[0].render()
                        ),
                    ));
                    return;
                }
            }
            Event::Report { rid, kind, loc, .. } => {
                rid_loc.insert(*rid, loc.clone());
                let all = doc.resolve_all(loc);
                if all.is_empty() {
                    out.push(v("H-loc", format!("report `{}` is located at a position that does not exist in the payload", e.render())));
                    return;
                }
                let judge = |here: &Doc| -> Option<String> {
                    match kind {
                        KindSnap::IncorrectValueKind { actual, .. } => {
                            if !actual.same_unordered(here) {
                                Some(format!("its `actual` is not the value at that position ({})", here.render()))
                            } else {
                                None
                            }
                        }
                        KindSnap::BadSequenceLen { actual, .. } => {
                            if !Doc::Seq(actual.clone()).same_unordered(here) {
                                Some(format!("its `actual` is not the sequence at that position ({})", here.render()))
                            } else {
                                None
                            }
                        }
                        KindSnap::MissingField { field } => match here {
                            Doc::Map(m) if m.iter().all(|(k, _)| k != field) => None,
                            Doc::Map(_) => Some(format!("the object there does have a member `{field}`")),
                            _ => Some("the position does not hold an object".to_string()),
                        },
                        KindSnap::UnknownKey { key, accepted } => match here {
                            Doc::Map(m) if m.iter().any(|(k, _)| k == key) => {
                                if accepted.iter().any(|a| a == key) {
                                    Some(format!("the key `{key}` is among the accepted keys"))
                                } else {
                                    None
                                }
                            }
                            Doc::Map(_) => Some(format!("the object there has no member `{key}`")),
                            _ => Some("the position does not hold an object".to_string()),
                        },
                        KindSnap::UnknownValue { value, accepted } => match here {
                            Doc::Str(s) if s == value => {
                                if accepted.iter().any(|a| a == value) {
                                    Some(format!("the value `{value}` is among the accepted values"))
                                } else {
                                    None
                                }
                            }
                            _ => Some(format!("the value at that position is {}", here.render())),
                        },
                        // (H-loc runs on programs without a field keyed like its enum's tag: nothing is taken out)
                        KindSnap::Unexpected { msg } => unexpected_claims(msg, here, &|_| false),
                    }
                };
                let verdicts: Vec<Option<String>> = all.iter().map(|d| judge(d)).collect();
                if verdicts.iter().all(|x| x.is_some()) {
                    out.push(v("H-loc", format!("report `{}`: {}", e.render(), verdicts[0].clone().unwrap())));
                    return;
                }
            }
            Event::Foreign { rid, loc, .. } => {
                rid_loc.insert(*rid, loc.clone());
                if doc.resolve_all(loc).is_empty() {
                    out.push(v("H-loc", format!("`{}` is located at a position that does not exist in the payload", e.render())));
                    return;
                }
            }
            Event::Merge { other_reports, loc, .. } => {
                if doc.resolve_all(loc).is_empty() {
                    out.push(v("H-loc", format!("hand-over `{}` is located at a position that does not exist in the payload", e.render())));
                    return;
                }
                for r in other_reports {
                    if let Some(rl) = rid_loc.get(r) {
                        if !is_prefix(loc, rl) {
                            out.push(v(
                                "H-loc",
                                format!(
                                    "hand-over `{}` happens at {} which is not an ancestor-or-self of report r{r} at {}",
                                    e.render(),
                                    path_str(loc),
                                    path_str(rl)
                                ),
                            ));
                            return;
                        }
                    }
                }
            }
            _ => {}
        }
    }
}

/// A fired callback fault must be handed to the error type at once and make the call fail.
pub fn h_cb_fail(run: &Run, out: &mut Vec<Violation>) {
    if matches!(run.outcome, Outcome::Panic(_)) {
        return;
    }
    for (i, e) in run.events.iter().enumerate() {
        if let Event::Call { failed: true, fn_id, stage, .. } = e {
            let ok = match run.events.get(i + 1) {
                Some(Event::Foreign { token, .. }) => token.starts_with(&format!("user#{fn_id}:")),
                Some(Event::Report { kind: KindSnap::Unexpected { msg }, .. }) => {
                    *stage == Stage::Validate && msg.starts_with(&format!("validate_e#{fn_id}:"))
                }
                _ => false,
            };
            // a validate function returning the container's own error type builds its error
            // through E::error; the container must then hand that error to the error type at
            // its own location (`merge(None, e, location)`)
            if ok {
                if let (Some(Event::Report { result, .. }), Event::Call { loc: Some(cloc), .. }) = (run.events.get(i + 1), e) {
                    let handed = match run.events.get(i + 2) {
                        Some(Event::Merge { other, loc, .. }) => other == result && loc == cloc,
                        _ => false,
                    };
                    if !handed {
                        out.push(v(
                            "H-calls",
                            format!(
                                "the error returned by `{}` was not handed to the error type at the container's location next (next event: {})",
                                e.render(),
                                run.events.get(i + 2).map(|x| x.render()).unwrap_or_else(|| "none".into())
                            ),
                        ));
                        return;
                    }
                }
            }
            if !ok {
                out.push(v(
                    "H-calls",
                    format!(
                        "the failure returned by `{}` was not handed to the error type next (next event: {})",
                        e.render(),
                        run.events.get(i + 1).map(|x| x.render()).unwrap_or_else(|| "none".into())
                    ),
                ));
                return;
            }
            if matches!(run.outcome, Outcome::Ok(_)) {
                out.push(v("H-calls", format!("`{}` failed but the call returned Ok", e.render())));
                return;
            }
        }
    }
}

// ---------------------------------------------------------------------------------------------
// model rules
// ---------------------------------------------------------------------------------------------

#[derive(Clone, Debug)]
pub enum ActClass {
    Kind(KindSnap),
    Foreign(String),
}

#[derive(Clone, Debug)]
pub struct ActReport {
    pub rid: u32,
    pub class: ActClass,
    pub loc: Path,
    pub ty: u8,
}

impl ActReport {
    pub fn render(&self) -> String {
        match &self.class {
            ActClass::Kind(k) => format!("{} at {} [to error type {}]", k.render(), path_str(&self.loc), self.ty),
            ActClass::Foreign(t) => format!("Foreign({t}) at {} [to error type {}]", path_str(&self.loc), self.ty),
        }
    }
    pub fn class_name(&self) -> &'static str {
        match &self.class {
            ActClass::Kind(k) => k.class(),
            ActClass::Foreign(_) => "Foreign",
        }
    }
}

pub fn actual_reports(events: &[Event]) -> Vec<ActReport> {
    events
        .iter()
        .filter_map(|e| match e {
            Event::Report { rid, kind, loc, ty, .. } => {
                Some(ActReport { rid: *rid, class: ActClass::Kind(kind.clone()), loc: loc.clone(), ty: *ty })
            }
            Event::Foreign { rid, token, loc, ty, .. } => {
                Some(ActReport { rid: *rid, class: ActClass::Foreign(token.clone()), loc: loc.clone(), ty: *ty })
            }
            _ => None,
        })
        .collect()
}

pub fn exp_class_name(c: &ExpClass) -> &'static str {
    match c {
        ExpClass::Kind { .. } => "IncorrectValueKind",
        ExpClass::Missing { .. } => "MissingField",
        ExpClass::UnknownKey { .. } => "UnknownKey",
        ExpClass::UnknownValue { .. } => "UnknownValue",
        ExpClass::BadLen { .. } => "BadSequenceLen",
        ExpClass::Unexpected { .. } => "Unexpected",
        ExpClass::Foreign { .. } => "Foreign",
        ExpClass::Any => "Any",
    }
}

pub fn render_exp(r: &ExpReport) -> String {
    let c = match &r.class {
        ExpClass::Kind { actual, accepted } => format!("IncorrectValueKind{{actual:{},accepted(set):{accepted:?}}}", actual.sorted().render()),
        ExpClass::Missing { field } => format!("MissingField{{{field:?}}}"),
        ExpClass::UnknownKey { key, accepted } => format!("UnknownKey{{{key:?},accepted:{accepted:?}}}"),
        ExpClass::UnknownValue { value, accepted } => format!("UnknownValue{{{value:?},accepted:{accepted:?}}}"),
        ExpClass::BadLen { actual, expected } => format!("BadSequenceLen{{actual:{},expected:{expected}}}", Doc::Seq(actual.clone()).sorted().render()),
        ExpClass::Unexpected { contains } => format!("Unexpected{{message containing {contains:?}}}"),
        ExpClass::Foreign { token } => format!("Foreign({token})"),
        ExpClass::Any => "one report of any kind".to_string(),
    };
    format!("{c} at {} [to error type {}]", path_str(&r.loc), r.ty)
}

/// How strictly payloads are compared (a property only compares what it constrains).
#[derive(Clone, Copy, PartialEq, Eq)]
pub enum Strict {
    /// class, location and every constrained payload
    Full,
    /// class, location, and the key / field / value names, but not `accepted` lists nor `actual`
    Names,
}

fn matches(exp: &ExpReport, act: &ActReport, strict: Strict) -> bool {
    if exp.loc != act.loc {
        return false;
    }
    let full = strict == Strict::Full;
    // which error type received the report (field-level `error =` vs the container's)
    if full && exp.ty != act.ty {
        return false;
    }
    match (&exp.class, &act.class) {
        (ExpClass::Any, _) => true,
        (ExpClass::Foreign { token }, ActClass::Foreign(t)) => token == t,
        (ExpClass::Kind { actual, accepted }, ActClass::Kind(KindSnap::IncorrectValueKind { actual: a, accepted: acc })) => {
            if !full {
                return true;
            }
            let mut x = accepted.clone();
            x.sort();
            x.dedup();
            let mut y = acc.clone();
            y.sort();
            y.dedup();
            x == y && actual.same_unordered(a)
        }
        (ExpClass::Missing { field }, ActClass::Kind(KindSnap::MissingField { field: f })) => field == f,
        (ExpClass::UnknownKey { key, accepted }, ActClass::Kind(KindSnap::UnknownKey { key: k, accepted: a })) => {
            key == k && (!full || accepted == a)
        }
        (ExpClass::UnknownValue { value, accepted }, ActClass::Kind(KindSnap::UnknownValue { value: x, accepted: a })) => {
            value == x && (!full || accepted == a)
        }
        (ExpClass::BadLen { actual, expected }, ActClass::Kind(KindSnap::BadSequenceLen { actual: a, expected: e })) => {
            !full || (expected == e && Doc::Seq(actual.clone()).same_unordered(&Doc::Seq(a.clone())))
        }
        (ExpClass::Unexpected { contains }, ActClass::Kind(KindSnap::Unexpected { msg })) => match contains {
            None => true,
            Some(c) => msg.contains(c.as_str()),
        },
        _ => false,
    }
}

fn specificity(r: &ExpReport) -> (u8, usize) {
    match &r.class {
        ExpClass::Any => (3, 0),
        ExpClass::Unexpected { contains: None } => (2, 0),
        ExpClass::Unexpected { contains: Some(c) } => (1, usize::MAX - c.len()),
        _ => (0, 0),
    }
}

/// Multiset comparison of expected and actual reports, restricted to classes selected by
/// `keep` (applied to both sides; the unknown-tag report is class "Any" on the expected side,
/// and whatever was reported at that location on the actual side is left to it).
pub fn m_reports(
    rule: &'static str,
    exp: &Expect,
    run: &Run,
    strict: Strict,
    keep: &dyn Fn(&str) -> bool,
    out: &mut Vec<Violation>,
) {
    let mut acts: Vec<ActReport> = actual_reports(&run.events);
    let mut exps: Vec<&ExpReport> = exp.reports.iter().collect();
    exps.sort_by_key(|r| specificity(r));
    let mut used = vec![false; acts.len()];
    let mut missing: Vec<&ExpReport> = vec![];
    for e in &exps {
        let mut found = false;
        for (i, a) in acts.iter().enumerate() {
            if !used[i] && matches(e, a, strict) {
                used[i] = true;
                found = true;
                break;
            }
        }
        if !found {
            missing.push(e);
        }
    }
    let missing: Vec<&&ExpReport> = missing.iter().filter(|e| keep(exp_class_name(&e.class))).collect();
    let extra: Vec<ActReport> = acts
        .drain(..)
        .enumerate()
        .filter(|(i, a)| !used[*i] && keep(a.class_name()))
        .map(|(_, a)| a)
        .collect();
    if !missing.is_empty() || !extra.is_empty() {
        out.push(v(
            rule,
            format!(
                "reports differ from the reference interpreter: expected but absent: [{}]; reported but not expected: [{}]",
                missing.iter().map(|e| render_exp(e)).collect::<Vec<_>>().join("; "),
                extra.iter().map(|a| a.render()).collect::<Vec<_>>().join("; ")
            ),
        ));
    }
}

/// The report the built-in error types print is the first one made to the container's error type
/// in the keep-going run. It has to be one of the reports the reference interpreter expects for
/// this payload, content included (a `BadSequenceLen` whose `expected` is not the arity of the
/// target renders as a well-formed message about the wrong length, which comparing the message
/// with the report it renders cannot see). Weaker than `m_reports`: one report, membership only.
/// A run whose first hand-over to error type 0 is a field's own error is left to `m_handover`.
pub fn m_first(rule: &'static str, exp: &Expect, run: &Run, out: &mut Vec<Violation>) -> bool {
    for e in &run.events {
        let act = match e {
            Event::Report { rid, kind, loc, ty: 0, .. } => ActReport { rid: *rid, class: ActClass::Kind(kind.clone()), loc: loc.clone(), ty: 0 },
            Event::Foreign { rid, token, loc, ty: 0, .. } => ActReport { rid: *rid, class: ActClass::Foreign(token.clone()), loc: loc.clone(), ty: 0 },
            Event::Merge { ty: 0, other_ty: 1, .. } => return false,
            _ => continue,
        };
        if !exp.reports.iter().any(|x| matches(x, &act, Strict::Full)) {
            out.push(v(
                rule,
                format!(
                    "the first report of the keep-going run, which is what the built-in error types print, is {} but the reference interpreter expects no such report for this payload; it expects: [{}]",
                    act.render(),
                    exp.reports.iter().map(render_exp).collect::<Vec<_>>().join("; ")
                ),
            ));
        }
        return true;
    }
    false
}

pub fn m_value(rule: &'static str, exp: &Expect, run: &Run, out: &mut Vec<Violation>) {
    match (&exp.value, &run.outcome) {
        (Some(e), Outcome::Ok(a)) => {
            if e != a {
                out.push(v(
                    rule,
                    format!("value differs from the reference interpreter: expected {} got {}", e.render(), a.render()),
                ));
            }
        }
        (Some(e), other) => out.push(v(
            rule,
            format!("the reference interpreter expects success with {} but the call ended with {}", e.render(), other.render()),
        )),
        (None, Outcome::Ok(a)) => out.push(v(
            rule,
            format!(
                "the reference interpreter expects failure ({} reports, first: {}) but the call returned Ok({})",
                exp.reports.len(),
                exp.reports.first().map(render_exp).unwrap_or_default(),
                a.render()
            ),
        )),
        (None, _) => {}
    }
}

pub fn m_visits(rule: &'static str, exp: &Expect, run: &Run, out: &mut Vec<Violation>) {
    let mut a: Vec<(u32, Path, u64, bool)> = run
        .events
        .iter()
        .filter_map(|e| match e {
            Event::Visit { probe, path, digest, failed } => Some((*probe, path.clone(), *digest, *failed)),
            _ => None,
        })
        .collect();
    let mut b = exp.visits.clone();
    a.sort();
    b.sort();
    if a != b {
        let only_exp: Vec<String> = b.iter().filter(|x| !a.contains(x)).map(|x| format!("P{}@{}", x.0, path_str(&x.1))).collect();
        let only_act: Vec<String> = a.iter().filter(|x| !b.contains(x)).map(|x| format!("P{}@{}", x.0, path_str(&x.1))).collect();
        out.push(v(
            rule,
            format!(
                "examined leaves differ from the reference interpreter: should have been examined but were not: {only_exp:?}; examined but should not have been: {only_act:?} (expected {} visits, got {})",
                b.len(),
                a.len()
            ),
        ));
    }
}

fn stage_conv(s: Stage) -> CallStage {
    match s {
        Stage::From => CallStage::From,
        Stage::TryFrom => CallStage::TryFrom,
        Stage::Map => CallStage::Map,
        Stage::Validate => CallStage::Validate,
        Stage::Missing => CallStage::Missing,
        Stage::Unknown => CallStage::Unknown,
        Stage::WrapFrom => CallStage::WrapFrom,
        Stage::WrapTryFrom => CallStage::WrapTryFrom,
    }
}

pub fn actual_calls(events: &[Event]) -> Vec<ExpCall> {
    events
        .iter()
        .filter_map(|e| match e {
            Event::Call { fn_id, stage, arg, loc, key, accepted, failed } => Some(ExpCall {
                fn_id: *fn_id,
                stage: stage_conv(*stage),
                arg: arg.clone(),
                loc: loc.clone(),
                key: key.clone(),
                accepted: accepted.clone(),
                failed: *failed,
            }),
            _ => None,
        })
        .collect()
}

pub fn render_call(c: &ExpCall) -> String {
    format!(
        "f{} {:?} arg={} loc={} key={:?} accepted={:?}{}",
        c.fn_id,
        c.stage,
        c.arg.as_ref().map(|a| a.render()).unwrap_or_else(|| "-".into()),
        c.loc.as_ref().map(|l| path_str(l)).unwrap_or_else(|| "-".into()),
        c.key,
        c.accepted,
        if c.failed { " FAILS" } else { "" }
    )
}

/// Calls made vs calls the reference interpreter expects, restricted to the stages `keep`
/// selects. `subset_only`: under stop answers the run is cut short, so calls may be missing but
/// none may be made that the keep-going semantics does not make, and none twice.
pub fn m_calls(
    rule: &'static str,
    exp: &Expect,
    run: &Run,
    subset_only: bool,
    keep: &dyn Fn(CallStage) -> bool,
    out: &mut Vec<Violation>,
) {
    m_calls_opt(rule, exp, run, subset_only, false, keep, out)
}

/// `ignore_args`: compare which function is called, at which stage, with which key / accepted
/// list / location, but not the value argument (used when the payload has duplicate keys: which
/// occurrence ends up in a value is not specified)
pub fn m_calls_opt(
    rule: &'static str,
    exp: &Expect,
    run: &Run,
    subset_only: bool,
    ignore_args: bool,
    keep: &dyn Fn(CallStage) -> bool,
    out: &mut Vec<Violation>,
) {
    let strip = |mut c: ExpCall| -> ExpCall {
        if ignore_args {
            c.arg = None;
        }
        c
    };
    let acts: Vec<ExpCall> = actual_calls(&run.events).into_iter().filter(|c| keep(c.stage)).map(strip).collect();
    let exps_owned: Vec<ExpCall> = exp.calls.iter().filter(|c| keep(c.stage)).cloned().map(strip).collect();
    let exps: Vec<&ExpCall> = exps_owned.iter().collect();
    let mut used = vec![false; exps.len()];
    let mut extra: Vec<&ExpCall> = vec![];
    for a in &acts {
        let mut found = false;
        for (i, e) in exps.iter().enumerate() {
            if !used[i] && *e == a {
                used[i] = true;
                found = true;
                break;
            }
        }
        if !found {
            extra.push(a);
        }
    }
    let missing: Vec<&&ExpCall> = exps.iter().enumerate().filter(|(i, _)| !used[*i]).map(|(_, e)| e).collect();
    if !extra.is_empty() || (!subset_only && !missing.is_empty()) {
        out.push(v(
            rule,
            format!(
                "user-function calls differ from the reference interpreter: made but not expected (or made twice): [{}]; expected but not made: [{}]",
                extra.iter().map(|c| render_call(c)).collect::<Vec<_>>().join("; "),
                if subset_only { String::from("n/a under stop answers") } else { missing.iter().map(|c| render_call(c)).collect::<Vec<_>>().join("; ") }
            ),
        ));
    }
}

/// An entry the source handed out to a container that denies unknown keys is dealt with there and
/// then: whatever the answers, if the keep-going run treats entry K of the object at P as unknown
/// (reports it, or calls the user's function for it), then every run in which the source hands out
/// that entry also does, before it ends. (Nothing can come between the hand-out and the report; a
/// run stopped earlier never gets the entry handed out.) Not meaningful with duplicate keys.
pub fn h_deliver(base: &Run, run: &Run, out: &mut Vec<Violation>) {
    if matches!(run.outcome, Outcome::Panic(_)) || matches!(base.outcome, Outcome::Panic(_)) {
        return;
    }
    let handled = |events: &[Event]| -> Vec<(Path, String)> {
        events
            .iter()
            .filter_map(|e| match e {
                Event::Report { kind: KindSnap::UnknownKey { key, .. }, loc, .. } => Some((loc.clone(), key.clone())),
                Event::Call { stage: Stage::Unknown, key: Some(k), loc: Some(l), .. } => Some((l.clone(), k.clone())),
                _ => None,
            })
            .collect()
    };
    let unknown_in_base = handled(&base.events);
    if unknown_in_base.is_empty() {
        return;
    }
    let handled_here = handled(&run.events);
    for e in &run.events {
        if let Event::Deliver { at, key } = e {
            let k = (at.clone(), key.clone());
            if unknown_in_base.contains(&k) && !handled_here.contains(&k) {
                out.push(v(
                    "H-deliver",
                    format!(
                        "the source handed out entry {key:?} of the object at {}, an unknown key there (the keep-going run reports it), yet this run ends without it having been reported",
                        path_str(at)
                    ),
                ));
                return;
            }
        }
    }
}

/// Which object members get decoded: exactly those the reference interpreter says are read.
pub fn m_decodes(rule: &'static str, exp: &Expect, run: &Run, out: &mut Vec<Violation>) {
    let mut want: Vec<&Path> = exp.decodes.iter().collect();
    want.sort();
    want.dedup();
    let mut got: Vec<&Path> = run.events.iter().filter_map(|e| if let Event::Decode { path } = e { Some(path) } else { None }).collect();
    got.sort();
    got.dedup();
    let extra: Vec<String> = got.iter().filter(|p| !want.contains(p)).map(|p| path_str(p)).collect();
    let missing: Vec<String> = want.iter().filter(|p| !got.contains(p)).map(|p| path_str(p)).collect();
    if !extra.is_empty() || !missing.is_empty() {
        out.push(v(
            rule,
            format!(
                "object members decoded differ from the reference interpreter: decoded although nothing reads them: {extra:?}; not decoded although read: {missing:?}"
            ),
        ));
    }
}

/// For every child position whose subtree failed inside an accumulating container there is a
/// hand-over located exactly at that child, carrying exactly the reports made at or beneath it.
pub fn m_handover(rule: &'static str, exp: &Expect, run: &Run, out: &mut Vec<Violation>) {
    let acts = actual_reports(&run.events);
    for c in &exp.handovers {
        let mut want: Vec<u32> = acts.iter().filter(|a| is_prefix(c, &a.loc)).map(|a| a.rid).collect();
        want.sort();
        let found = run.events.iter().any(|e| match e {
            Event::Merge { loc, other_reports, .. } if loc == c => {
                let mut got = other_reports.clone();
                got.sort();
                got == want
            }
            _ => false,
        });
        if !found {
            let at_c: Vec<String> = run
                .events
                .iter()
                .filter(|e| matches!(e, Event::Merge { other_reports, .. } if { let mut g = other_reports.clone(); g.sort(); g == want }))
                .map(|e| e.render())
                .collect();
            out.push(v(
                rule,
                format!(
                    "the error of the child at {} (reports {want:?}) was not handed to its parent at the child's own position; hand-overs carrying those reports: {at_c:?}",
                    path_str(c)
                ),
            ));
            return;
        }
    }
}

// ---------------------------------------------------------------------------------------------
// comparison of two runs (metamorphic rules)
// ---------------------------------------------------------------------------------------------

/// order-insensitive summary of what a run produced: the value, or the multiset of reports
pub fn outcome_summary(run: &Run, with_payload: bool) -> (Option<String>, Vec<String>) {
    let value = match &run.outcome {
        Outcome::Ok(v) => Some(v.render()),
        Outcome::Panic(m) => Some(format!("PANIC {m}")),
        _ => None,
    };
    let mut reports: Vec<String> = actual_reports(&run.events)
        .iter()
        .map(|a| {
            if with_payload {
                a.render()
            } else {
                let names = match &a.class {
                    ActClass::Kind(KindSnap::MissingField { field }) => field.clone(),
                    ActClass::Kind(KindSnap::UnknownKey { key, .. }) => key.clone(),
                    ActClass::Kind(KindSnap::UnknownValue { value, .. }) => value.clone(),
                    ActClass::Foreign(t) => t.clone(),
                    _ => String::new(),
                };
                format!("{} {names} at {}", a.class_name(), path_str(&a.loc))
            }
        })
        .collect();
    reports.sort();
    (value, reports)
}

/// where child errors were handed over (order-insensitive): also something the error type receives
pub fn handover_summary(run: &Run) -> Vec<String> {
    let mut v: Vec<String> = run
        .events
        .iter()
        .filter_map(|e| match e {
            Event::Merge { loc, ty, other_ty, other_reports, .. } => {
                Some(format!("E{ty}<-E{other_ty} x{} at {}", other_reports.len(), path_str(loc)))
            }
            _ => None,
        })
        .collect();
    v.sort();
    v
}

/// what the returned error holds, as descriptors of the reports (order-insensitive)
pub fn returned_summary(run: &Run) -> Vec<String> {
    let acts = actual_reports(&run.events);
    let mut v: Vec<String> = match &run.outcome {
        Outcome::Err { reports, .. } => reports
            .iter()
            .map(|rid| acts.iter().find(|a| a.rid == *rid).map(|a| a.render()).unwrap_or_else(|| format!("r{rid}?")))
            .collect(),
        _ => vec![],
    };
    v.sort();
    v
}
