//! The simulated parties a call to `deserr::deserialize` talks to: the value source, the error
//! type, the leaf deserializer and the user callbacks. All go through traits / attributes that
//! deserr already exposes; nothing here needs a hook in /repo.

use crate::history::{self, log, Event, KindSnap, Stage};
use deserr::{
    take_cf_content, DeserializeError, Deserr, ErrorKind, IntoValue, Map, MergeWithError, Sequence,
    Value, ValueKind, ValuePointerRef,
};
use simcore::doc::{path_str, Doc, Kind, Path, Step};
pub use simcore::mval::MVal;
use std::collections::{BTreeMap, BTreeSet, HashMap, HashSet};
use std::convert::Infallible;
use std::ops::ControlFlow;

// ---------------------------------------------------------------------------------------------
// value source
// ---------------------------------------------------------------------------------------------

/// An `IntoValue` implementation whose objects are delivered in an explicit order and may hold
/// duplicate keys; `Map::remove` is shift-remove or swap-remove depending on the run.
/// Where in the delivered document a value sits: a linked list towards the root, so that handing
/// out a child costs one allocation. `None` in `SimValue::at` means "not part of a delivered
/// document" (values the harness builds for rendering).
#[derive(Clone)]
pub struct At(Option<std::rc::Rc<AtNode>>);

pub struct AtNode {
    step: Step,
    parent: At,
}

impl At {
    pub fn root() -> At {
        At(None)
    }
    pub fn child(&self, step: Step) -> At {
        At(Some(std::rc::Rc::new(AtNode { step, parent: self.clone() })))
    }
    pub fn path(&self) -> Path {
        let mut rev = vec![];
        let mut cur = self;
        while let Some(n) = &cur.0 {
            rev.push(n.step.clone());
            cur = &n.parent;
        }
        rev.reverse();
        rev
    }
    fn is_member(&self) -> bool {
        matches!(&self.0, Some(n) if matches!(n.step, Step::Key(_)))
    }
}

pub struct SimValue {
    pub doc: Doc,
    pub at: Option<At>,
}

impl SimValue {
    /// the root of a delivered document
    pub fn root(doc: Doc) -> SimValue {
        SimValue { doc, at: Some(At::root()) }
    }
    /// a value that is not part of a delivered document
    pub fn detached(doc: Doc) -> SimValue {
        SimValue { doc, at: None }
    }
}

pub struct SimSeq {
    pub items: Vec<Doc>,
    pub at: Option<At>,
}

impl SimSeq {
    pub fn detached(items: Vec<Doc>) -> SimSeq {
        SimSeq { items, at: None }
    }
}

pub struct SimMap {
    pub entries: Vec<(String, Doc)>,
    pub swap: bool,
    pub at: Option<At>,
}

impl IntoValue for SimValue {
    type Sequence = SimSeq;
    type Map = SimMap;

    fn kind(&self) -> ValueKind {
        kind_to_deserr(self.doc.kind())
    }

    fn into_value(self) -> Value<Self> {
        if let Some(at) = &self.at {
            if at.is_member() {
                history::log_source(Event::Decode { path: at.path() });
            }
        }
        match self.doc {
            Doc::Null => Value::Null,
            Doc::Bool(b) => Value::Boolean(b),
            Doc::Int(x) => Value::Integer(x),
            Doc::Neg(x) => Value::NegativeInteger(x),
            Doc::Float(x) => Value::Float(x),
            Doc::Str(s) => Value::String(s),
            Doc::Seq(v) => Value::Sequence(SimSeq { items: v, at: self.at }),
            Doc::Map(m) => Value::Map(SimMap { entries: m, swap: history::swap_remove(), at: self.at }),
        }
    }
}

pub struct SimSeqIter {
    inner: std::iter::Enumerate<std::vec::IntoIter<Doc>>,
    at: Option<At>,
}

impl Iterator for SimSeqIter {
    type Item = SimValue;
    fn next(&mut self) -> Option<SimValue> {
        let (i, doc) = self.inner.next()?;
        let at = self.at.as_ref().map(|a| {
            history::log_source(Event::Pull { at: a.path(), index: i });
            a.child(Step::Index(i))
        });
        Some(SimValue { doc, at })
    }
}

impl Sequence for SimSeq {
    type Value = SimValue;
    type Iter = SimSeqIter;

    fn len(&self) -> usize {
        self.items.len()
    }

    fn into_iter(self) -> Self::Iter {
        SimSeqIter { inner: self.items.into_iter().enumerate(), at: self.at }
    }
}

pub struct SimMapIter {
    inner: std::vec::IntoIter<(String, Doc)>,
    at: Option<At>,
}

impl Iterator for SimMapIter {
    type Item = (String, SimValue);
    fn next(&mut self) -> Option<(String, SimValue)> {
        let (key, doc) = self.inner.next()?;
        let at = self.at.as_ref().map(|a| {
            history::log_source(Event::Deliver { at: a.path(), key: key.clone() });
            a.child(Step::Key(key.clone()))
        });
        Some((key, SimValue { doc, at }))
    }
}

impl Map for SimMap {
    type Value = SimValue;
    type Iter = SimMapIter;

    fn len(&self) -> usize {
        self.entries.len()
    }

    fn remove(&mut self, key: &str) -> Option<SimValue> {
        let i = self.entries.iter().position(|(k, _)| k == key)?;
        let moved = self.swap && i + 1 < self.entries.len();
        history::CTX.with(|c| {
            let mut c = c.borrow_mut();
            c.removes += 1;
            if moved {
                c.swap_moved_known += 1;
            }
        });
        let (_, v) = if self.swap { self.entries.swap_remove(i) } else { self.entries.remove(i) };
        Some(SimValue { doc: v, at: self.at.as_ref().map(|a| a.child(Step::Key(key.to_string()))) })
    }

    fn into_iter(self) -> Self::Iter {
        SimMapIter { inner: self.entries.into_iter(), at: self.at }
    }
}

pub fn kind_to_deserr(k: Kind) -> ValueKind {
    match k {
        Kind::Null => ValueKind::Null,
        Kind::Boolean => ValueKind::Boolean,
        Kind::Integer => ValueKind::Integer,
        Kind::NegativeInteger => ValueKind::NegativeInteger,
        Kind::Float => ValueKind::Float,
        Kind::String => ValueKind::String,
        Kind::Sequence => ValueKind::Sequence,
        Kind::Map => ValueKind::Map,
    }
}

pub fn kind_from_deserr(k: ValueKind) -> Kind {
    match k {
        ValueKind::Null => Kind::Null,
        ValueKind::Boolean => Kind::Boolean,
        ValueKind::Integer => Kind::Integer,
        ValueKind::NegativeInteger => Kind::NegativeInteger,
        ValueKind::Float => Kind::Float,
        ValueKind::String => Kind::String,
        ValueKind::Sequence => Kind::Sequence,
        ValueKind::Map => Kind::Map,
    }
}

// ---------------------------------------------------------------------------------------------
// observers: copy what deserr hands us through the public trait API only
// ---------------------------------------------------------------------------------------------

pub fn to_path(loc: ValuePointerRef) -> Path {
    let mut rev: Vec<Step> = vec![];
    let mut cur = loc;
    loop {
        match cur {
            ValuePointerRef::Origin => break,
            ValuePointerRef::Key { key, prev } => {
                rev.push(Step::Key(key.to_string()));
                cur = *prev;
            }
            ValuePointerRef::Index { index, prev } => {
                rev.push(Step::Index(index));
                cur = *prev;
            }
        }
    }
    rev.reverse();
    rev
}

pub fn snap_value<V: IntoValue>(v: Value<V>) -> Doc {
    match v {
        Value::Null => Doc::Null,
        Value::Boolean(b) => Doc::Bool(b),
        Value::Integer(x) => Doc::Int(x),
        Value::NegativeInteger(x) => Doc::Neg(x),
        Value::Float(x) => Doc::Float(x),
        Value::String(s) => Doc::Str(s),
        Value::Sequence(s) => Doc::Seq(s.into_iter().map(|x| snap_value(x.into_value())).collect()),
        Value::Map(m) => Doc::Map(m.into_iter().map(|(k, x)| (k, snap_value(x.into_value()))).collect()),
    }
}

/// An error type is entitled to print the kinds it is handed (`Display` / `Debug` of `ValueKind`
/// are public API): this one does, and insists on the documented names.
fn print_kinds(kinds: &[ValueKind]) {
    for k in kinds {
        let want = match k {
            ValueKind::Null => "Null",
            ValueKind::Boolean => "Boolean",
            ValueKind::Integer => "Integer",
            ValueKind::NegativeInteger => "NegativeInteger",
            ValueKind::Float => "Float",
            ValueKind::String => "String",
            ValueKind::Sequence => "Sequence",
            ValueKind::Map => "Map",
        };
        let (shown, debugged) = (format!("{k}"), format!("{k:?}"));
        if shown != want || debugged != want {
            panic!("ValueKind::{want} prints as {shown:?} (Display) / {debugged:?} (Debug)");
        }
    }
}

pub fn snap_kind<V: IntoValue>(k: ErrorKind<V>) -> KindSnap {
    if let ErrorKind::IncorrectValueKind { actual, accepted } = &k {
        print_kinds(accepted);
        print_kinds(&[actual.kind()]);
    }
    match k {
        ErrorKind::IncorrectValueKind { actual, accepted } => KindSnap::IncorrectValueKind {
            actual: snap_value(actual),
            accepted: accepted.iter().map(|k| kind_from_deserr(*k)).collect(),
        },
        ErrorKind::MissingField { field } => KindSnap::MissingField { field: field.to_string() },
        ErrorKind::UnknownKey { key, accepted } => KindSnap::UnknownKey {
            key: key.to_string(),
            accepted: accepted.iter().map(|s| s.to_string()).collect(),
        },
        ErrorKind::UnknownValue { value, accepted } => KindSnap::UnknownValue {
            value: value.to_string(),
            accepted: accepted.iter().map(|s| s.to_string()).collect(),
        },
        ErrorKind::BadSequenceLen { actual, expected } => KindSnap::BadSequenceLen {
            actual: actual.into_iter().map(|x| snap_value(x.into_value())).collect(),
            expected,
        },
        ErrorKind::Unexpected { msg } => KindSnap::Unexpected { msg },
    }
}

// ---------------------------------------------------------------------------------------------
// error type
// ---------------------------------------------------------------------------------------------

/// A scripted, linear error value: it keeps every report id it is handed, answers
/// Continue/Break from the run's script, and records when it dies unconsumed.
/// `SimErr` = `SimErrT<0>`; `SimErrB` = `SimErrT<1>` is a second, distinct type for
/// field-level `error =`.
pub struct SimErrT<const K: u8> {
    pub vid: u32,
    pub reports: Vec<u32>,
    live: bool,
}

pub type SimErr = SimErrT<0>;
pub type SimErrB = SimErrT<1>;

impl<const K: u8> SimErrT<K> {
    /// the holder hands the value on: it is consumed
    pub fn consume(mut self) -> (u32, Vec<u32>) {
        self.live = false;
        (self.vid, std::mem::take(&mut self.reports))
    }
}

impl<const K: u8> Drop for SimErrT<K> {
    fn drop(&mut self) {
        if self.live {
            log(Event::Dropped { vid: self.vid, ty: K, reports: std::mem::take(&mut self.reports) });
        }
    }
}

impl<const K: u8> std::fmt::Debug for SimErrT<K> {
    fn fmt(&self, f: &mut std::fmt::Formatter<'_>) -> std::fmt::Result {
        write!(f, "SimErr<{K}>(v{} {:?})", self.vid, self.reports)
    }
}

impl<const K: u8> std::fmt::Display for SimErrT<K> {
    fn fmt(&self, f: &mut std::fmt::Formatter<'_>) -> std::fmt::Result {
        write!(f, "SimErr<{K}>(v{} {:?})", self.vid, self.reports)
    }
}

// needed so that the built-in error types accept a field-level SimErrB through their blanket
// `MergeWithError<E: std::error::Error>`
impl std::error::Error for SimErrT<1> {}

fn answer<T>(brk: bool, v: T) -> ControlFlow<T, T> {
    if brk {
        ControlFlow::Break(v)
    } else {
        ControlFlow::Continue(v)
    }
}

impl<const K: u8> DeserializeError for SimErrT<K> {
    fn error<V: IntoValue>(
        self_: Option<Self>,
        error: ErrorKind<V>,
        location: ValuePointerRef,
    ) -> ControlFlow<Self, Self> {
        let kind = history::quietly(|| snap_kind(error));
        let loc = to_path(location);
        let (self_id, mut reports) = match self_ {
            Some(s) => {
                let (v, r) = s.consume();
                (Some(v), r)
            }
            None => (None, vec![]),
        };
        let rid = history::new_rid();
        let vid = history::new_vid();
        reports.push(rid);
        let brk = history::next_answer();
        log(Event::Report { rid, ty: K, self_: self_id, result: vid, kind, loc, brk });
        answer(brk, SimErrT { vid, reports, live: true })
    }
}

impl<const K: u8, const J: u8> MergeWithError<SimErrT<J>> for SimErrT<K> {
    fn merge(
        self_: Option<Self>,
        other: SimErrT<J>,
        merge_location: ValuePointerRef,
    ) -> ControlFlow<Self, Self> {
        let loc = to_path(merge_location);
        let (self_id, mut reports) = match self_ {
            Some(s) => {
                let (v, r) = s.consume();
                (Some(v), r)
            }
            None => (None, vec![]),
        };
        let (other_id, other_reports) = other.consume();
        reports.extend(other_reports.iter().copied());
        let vid = history::new_vid();
        let brk = history::next_answer();
        log(Event::Merge {
            ty: K,
            self_: self_id,
            other: other_id,
            other_ty: J,
            other_reports,
            result: vid,
            loc,
            brk,
        });
        answer(brk, SimErrT { vid, reports, live: true })
    }
}

/// The error a user callback (`try_from`, `validate`) returns.
pub struct UserErr {
    pub token: String,
    live: bool,
}

impl UserErr {
    pub fn new(fn_id: u32, arg_hash: u64) -> UserErr {
        UserErr { token: format!("user#{fn_id}:{arg_hash:016x}"), live: true }
    }
}

impl Drop for UserErr {
    fn drop(&mut self) {
        if self.live {
            log(Event::DroppedUser { token: std::mem::take(&mut self.token) });
        }
    }
}

impl std::fmt::Debug for UserErr {
    fn fmt(&self, f: &mut std::fmt::Formatter<'_>) -> std::fmt::Result {
        write!(f, "{}", self.token)
    }
}
/// What a user error prints. One function in five returns errors that print nothing at all (an
/// error whose `Display` is empty is legal); the others print their token.
pub fn user_shown(token: &str) -> String {
    let id = token.strip_prefix("user#").and_then(|r| r.split_once(':')).and_then(|(n, _)| n.parse::<u32>().ok());
    match id {
        Some(n) if n % 5 == 0 => String::new(),
        _ => token.to_string(),
    }
}

impl std::fmt::Display for UserErr {
    fn fmt(&self, f: &mut std::fmt::Formatter<'_>) -> std::fmt::Result {
        write!(f, "{}", user_shown(&self.token))
    }
}
/// user errors wrap a lower-level cause, as real ones do: what the error type is handed (and what
/// the built-in types print) is the user error, not the bottom of its `source()` chain
#[derive(Debug)]
pub struct RootCause;
impl std::fmt::Display for RootCause {
    fn fmt(&self, f: &mut std::fmt::Formatter<'_>) -> std::fmt::Result {
        write!(f, "root cause (an implementation detail of the user error)")
    }
}
impl std::error::Error for RootCause {}
static ROOT_CAUSE: RootCause = RootCause;

impl std::error::Error for UserErr {
    fn source(&self) -> Option<&(dyn std::error::Error + 'static)> {
        Some(&ROOT_CAUSE)
    }
}

impl<const K: u8> MergeWithError<UserErr> for SimErrT<K> {
    fn merge(
        self_: Option<Self>,
        mut other: UserErr,
        merge_location: ValuePointerRef,
    ) -> ControlFlow<Self, Self> {
        let loc = to_path(merge_location);
        let (self_id, mut reports) = match self_ {
            Some(s) => {
                let (v, r) = s.consume();
                (Some(v), r)
            }
            None => (None, vec![]),
        };
        other.live = false;
        let token = std::mem::take(&mut other.token);
        let rid = history::new_rid();
        let vid = history::new_vid();
        reports.push(rid);
        let brk = history::next_answer();
        log(Event::Foreign { rid, ty: K, self_: self_id, token, result: vid, loc, brk });
        answer(brk, SimErrT { vid, reports, live: true })
    }
}

// ---------------------------------------------------------------------------------------------
// leaf deserializer
// ---------------------------------------------------------------------------------------------

/// A hand-written `Deserr` leaf that accepts any value, records where it was called and what
/// it saw, and fails when the run's leaf-fault set says so.
#[derive(Clone, Debug, PartialEq, Eq, Hash, PartialOrd, Ord)]
pub struct Probe<const ID: u32>(pub MVal);

impl<const ID: u32> Probe<ID> {
    pub fn dflt(token: u32) -> Self {
        Probe(MVal::DfltExpr(token))
    }
}

impl<const ID: u32> Default for Probe<ID> {
    fn default() -> Self {
        Probe(MVal::DfltTrait(ID))
    }
}

impl<const ID: u32, E: DeserializeError> Deserr<E> for Probe<ID> {
    fn deserialize_from_value<V: IntoValue>(
        value: Value<V>,
        location: ValuePointerRef,
    ) -> Result<Self, E> {
        let path = to_path(location);
        let doc = history::quietly(|| snap_value(value));
        let digest = doc.digest();
        let failed = history::leaf_fails(&path);
        log(Event::Visit { probe: ID, path: path.clone(), digest, failed });
        if failed {
            Err(take_cf_content(E::error::<Infallible>(
                None,
                ErrorKind::Unexpected { msg: format!("injected leaf fault at {}", path_str(&path)) },
                location,
            )))
        } else {
            Ok(Probe(MVal::Token { probe: ID, path, digest }))
        }
    }
}

// ---------------------------------------------------------------------------------------------
// model of a successful value
// ---------------------------------------------------------------------------------------------

pub trait ToModel {
    fn to_model(&self) -> MVal;
}

/// container-level `from` / `try_from` targets
pub trait Wrap {
    fn wrap(v: MVal) -> Self;
}

pub trait KeyRender {
    fn key_render(&self) -> String;
}
impl KeyRender for String {
    fn key_render(&self) -> String {
        self.clone()
    }
}
impl KeyRender for u8 {
    fn key_render(&self) -> String {
        self.to_string()
    }
}
impl KeyRender for i32 {
    fn key_render(&self) -> String {
        self.to_string()
    }
}
impl KeyRender for char {
    fn key_render(&self) -> String {
        self.to_string()
    }
}

impl<const ID: u32> ToModel for Probe<ID> {
    fn to_model(&self) -> MVal {
        self.0.clone()
    }
}
impl ToModel for MVal {
    fn to_model(&self) -> MVal {
        self.clone()
    }
}
impl ToModel for () {
    fn to_model(&self) -> MVal {
        MVal::Unit
    }
}
impl ToModel for bool {
    fn to_model(&self) -> MVal {
        MVal::Bool(*self)
    }
}
impl ToModel for u8 {
    fn to_model(&self) -> MVal {
        MVal::Int(*self as i128)
    }
}
impl ToModel for i32 {
    fn to_model(&self) -> MVal {
        MVal::Int(*self as i128)
    }
}
impl ToModel for u64 {
    fn to_model(&self) -> MVal {
        MVal::Int(*self as i128)
    }
}
macro_rules! to_model_int {
    ($($t:ty),*) => { $( impl ToModel for $t { fn to_model(&self) -> MVal { MVal::Int(*self as i128) } } )* };
}
to_model_int!(i8, i16, i64, i128, isize, u16, u32, u128, usize);
macro_rules! to_model_nonzero {
    ($($t:ty),*) => { $( impl ToModel for $t { fn to_model(&self) -> MVal { MVal::Int(self.get() as i128) } } )* };
}
to_model_nonzero!(
    std::num::NonZeroU8,
    std::num::NonZeroU32,
    std::num::NonZeroU64,
    std::num::NonZeroI8,
    std::num::NonZeroI32,
    std::num::NonZeroI64,
    std::num::NonZeroUsize
);
impl ToModel for f32 {
    fn to_model(&self) -> MVal {
        MVal::F64((*self as f64).to_bits())
    }
}
impl ToModel for f64 {
    fn to_model(&self) -> MVal {
        MVal::F64(self.to_bits())
    }
}
impl ToModel for String {
    fn to_model(&self) -> MVal {
        MVal::Str(self.clone())
    }
}
impl ToModel for char {
    fn to_model(&self) -> MVal {
        MVal::Char(*self)
    }
}
impl<T: ToModel> ToModel for Option<T> {
    fn to_model(&self) -> MVal {
        match self {
            None => MVal::None,
            Some(x) => MVal::Some(Box::new(x.to_model())),
        }
    }
}
impl<T: ToModel> ToModel for Box<T> {
    fn to_model(&self) -> MVal {
        (**self).to_model()
    }
}
impl<T: ToModel> ToModel for Vec<T> {
    fn to_model(&self) -> MVal {
        MVal::Seq(self.iter().map(|x| x.to_model()).collect())
    }
}
impl<T: ToModel, const N: usize> ToModel for [T; N] {
    fn to_model(&self) -> MVal {
        MVal::Seq(self.iter().map(|x| x.to_model()).collect())
    }
}
impl<A: ToModel, B: ToModel> ToModel for (A, B) {
    fn to_model(&self) -> MVal {
        MVal::Seq(vec![self.0.to_model(), self.1.to_model()])
    }
}
impl<A: ToModel, B: ToModel, C: ToModel> ToModel for (A, B, C) {
    fn to_model(&self) -> MVal {
        MVal::Seq(vec![self.0.to_model(), self.1.to_model(), self.2.to_model()])
    }
}
impl<T: ToModel> ToModel for HashSet<T> {
    fn to_model(&self) -> MVal {
        MVal::set(self.iter().map(|x| x.to_model()).collect())
    }
}
impl<T: ToModel> ToModel for BTreeSet<T> {
    fn to_model(&self) -> MVal {
        MVal::set(self.iter().map(|x| x.to_model()).collect())
    }
}
impl<K: KeyRender, T: ToModel> ToModel for HashMap<K, T> {
    fn to_model(&self) -> MVal {
        MVal::map(self.iter().map(|(k, x)| (k.key_render(), x.to_model())).collect())
    }
}
impl<K: KeyRender, T: ToModel> ToModel for BTreeMap<K, T> {
    fn to_model(&self) -> MVal {
        MVal::map(self.iter().map(|(k, x)| (k.key_render(), x.to_model())).collect())
    }
}
impl<T: ToModel> ToModel for serde_cs::vec::CS<T> {
    fn to_model(&self) -> MVal {
        MVal::Seq(self.0.iter().map(|x| x.to_model()).collect())
    }
}
impl<T> ToModel for std::marker::PhantomData<T> {
    fn to_model(&self) -> MVal {
        MVal::Unit
    }
}
impl ToModel for serde_json::Value {
    fn to_model(&self) -> MVal {
        MVal::Json(Doc::from_json(self).sorted().render())
    }
}

// ---------------------------------------------------------------------------------------------
// user callbacks
// ---------------------------------------------------------------------------------------------

fn log_call(
    fn_id: u32,
    stage: Stage,
    arg: Option<MVal>,
    loc: Option<Path>,
    key: Option<String>,
    accepted: Option<Vec<String>>,
    failed: bool,
) {
    log(Event::Call { fn_id, stage, arg, loc, key, accepted, failed });
}

pub fn from_cb<const N: u32, S: ToModel, const P: u32>(x: S) -> Probe<P> {
    let arg = x.to_model();
    log_call(N, Stage::From, Some(arg.clone()), None, None, None, false);
    Probe(MVal::Conv { fn_id: N, inner: Box::new(arg) })
}

pub fn from_ref_cb<const N: u32, S: ToModel, const P: u32>(x: &S) -> Probe<P> {
    let arg = x.to_model();
    log_call(N, Stage::From, Some(arg.clone()), None, None, None, false);
    Probe(MVal::Conv { fn_id: N, inner: Box::new(arg) })
}

pub fn try_cb<const N: u32, S: ToModel, const P: u32>(x: S) -> Result<Probe<P>, UserErr> {
    try_ref_cb::<N, S, P>(&x)
}

pub fn try_ref_cb<const N: u32, S: ToModel, const P: u32>(x: &S) -> Result<Probe<P>, UserErr> {
    let arg = x.to_model();
    let h = arg.hash();
    let failed = history::cb_fails(N, h);
    log_call(N, Stage::TryFrom, Some(arg.clone()), None, None, None, failed);
    if failed {
        Err(UserErr::new(N, h))
    } else {
        Ok(Probe(MVal::Conv { fn_id: N, inner: Box::new(arg) }))
    }
}

pub fn map_cb<const N: u32, const P: u32>(x: Probe<P>) -> Probe<P> {
    let arg = x.to_model();
    log_call(N, Stage::Map, Some(arg.clone()), None, None, None, false);
    Probe(MVal::Conv { fn_id: N, inner: Box::new(arg) })
}

pub fn validate_cb<const N: u32, T: ToModel>(x: T, loc: ValuePointerRef) -> Result<T, UserErr> {
    let arg = x.to_model();
    let h = arg.hash();
    let failed = history::cb_fails(N, h);
    log_call(N, Stage::Validate, Some(arg), Some(to_path(loc)), None, None, failed);
    if failed {
        Err(UserErr::new(N, h))
    } else {
        Ok(x)
    }
}

pub fn validate_e_cb<const N: u32, T: ToModel, E: DeserializeError>(
    x: T,
    loc: ValuePointerRef,
) -> Result<T, E> {
    let arg = x.to_model();
    let h = arg.hash();
    let failed = history::cb_fails(N, h);
    log_call(N, Stage::Validate, Some(arg), Some(to_path(loc)), None, None, failed);
    if failed {
        Err(take_cf_content(E::error::<Infallible>(
            None,
            ErrorKind::Unexpected { msg: format!("validate_e#{N}:{h:016x}") },
            loc,
        )))
    } else {
        Ok(x)
    }
}

pub fn missing_cb<const N: u32, E: DeserializeError>(key: &str, loc: ValuePointerRef) -> E {
    log_call(N, Stage::Missing, None, Some(to_path(loc)), Some(key.to_string()), None, false);
    take_cf_content(E::error::<Infallible>(
        None,
        ErrorKind::Unexpected { msg: format!("missing_cb#{N}:{key}") },
        loc,
    ))
}

pub fn unknown_cb<const N: u32, E: DeserializeError>(
    key: &str,
    accepted: &[&str],
    loc: ValuePointerRef,
) -> E {
    log_call(
        N,
        Stage::Unknown,
        None,
        Some(to_path(loc)),
        Some(key.to_string()),
        Some(accepted.iter().map(|s| s.to_string()).collect()),
        false,
    );
    take_cf_content(E::error::<Infallible>(None, ErrorKind::UnknownKey { key, accepted }, loc))
}

/// `missing_field_error` function returning a foreign error: the derive hands it to the
/// container's error type in one step (`MergeWithError<UserErr>`), whose answer it obeys.
pub fn missing_user_cb<const N: u32>(key: &str, loc: ValuePointerRef) -> UserErr {
    log_call(N, Stage::Missing, None, Some(to_path(loc)), Some(key.to_string()), None, false);
    UserErr::new(N, simcore::rng::hash_str(key))
}

pub fn unknown_user_cb<const N: u32>(key: &str, accepted: &[&str], loc: ValuePointerRef) -> UserErr {
    log_call(
        N,
        Stage::Unknown,
        None,
        Some(to_path(loc)),
        Some(key.to_string()),
        Some(accepted.iter().map(|s| s.to_string()).collect()),
        false,
    );
    UserErr::new(N, simcore::rng::hash_str(key))
}

pub fn wrap_from_cb<const N: u32, S: ToModel, W: Wrap>(x: S) -> W {
    wrap_from_ref_cb::<N, S, W>(&x)
}

pub fn wrap_from_ref_cb<const N: u32, S: ToModel, W: Wrap>(x: &S) -> W {
    let arg = x.to_model();
    log_call(N, Stage::WrapFrom, Some(arg.clone()), None, None, None, false);
    W::wrap(MVal::Conv { fn_id: N, inner: Box::new(arg) })
}

pub fn wrap_try_cb<const N: u32, S: ToModel, W: Wrap>(x: S) -> Result<W, UserErr> {
    wrap_try_ref_cb::<N, S, W>(&x)
}

pub fn wrap_try_ref_cb<const N: u32, S: ToModel, W: Wrap>(x: &S) -> Result<W, UserErr> {
    let arg = x.to_model();
    let h = arg.hash();
    let failed = history::cb_fails(N, h);
    log_call(N, Stage::WrapTryFrom, Some(arg.clone()), None, None, None, failed);
    if failed {
        Err(UserErr::new(N, h))
    } else {
        Ok(W::wrap(MVal::Conv { fn_id: N, inner: Box::new(arg) }))
    }
}
