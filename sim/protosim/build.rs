// The catalogue source is chosen at build time: the committed src/generated.rs by default, or
// the file named by PROTOSIM_GENERATED (thorough tier regenerates catalogues under /verif/.work).
fn main() {
    println!("cargo:rerun-if-env-changed=PROTOSIM_GENERATED");
    let default = format!("{}/src/generated.rs", std::env::var("CARGO_MANIFEST_DIR").unwrap());
    let path = std::env::var("PROTOSIM_GENERATED").unwrap_or(default);
    println!("cargo:rerun-if-changed={path}");
    println!("cargo:rustc-env=PROTOSIM_GENERATED_PATH={path}");
}
