//! Emits the Rust source of a catalogue: one `#[derive(Deserr)]` item per type definition, a
//! `ToModel` impl for each, and the table of runners (one per program).

use crate::desc::*;
use std::fmt::Write;

const PREDICATE_USER: &str = "where_predicate = __Deserr_E: deserr::MergeWithError<UserErr>";
const PREDICATE_B: &str = "where_predicate = __Deserr_E: deserr::MergeWithError<SimErrB>";

/// How the attributes of one item are written: in one `#[deserr(..)]`, one per line, or in a
/// seeded grouping, and in a seeded order. The derive must honour all of them alike.
/// Container attributes: the ones without which the generated impl would not even compile (the
/// tag, a `from` / `try_from`, the where-predicates) stay together in a first `#[deserr(..)]`; the
/// ones whose loss would be silent (`rename_all`, `deny_unknown_fields`, `validate`) are laid out
/// after it like any others, so that a derive that stops reading attributes early is caught by a
/// property instead of by the compiler.
fn layout_container(attrs: &[String], salt: &str) -> String {
    let pinned: Vec<String> = attrs.iter().filter(|a| is_structural(a)).cloned().collect();
    let rest: Vec<String> = attrs.iter().filter(|a| !is_structural(a)).cloned().collect();
    let mut out = String::new();
    let mut rng = crate::rng::Rng::new(crate::rng::mix(crate::rng::hash_str(salt), 0xC0A7, 0));
    if (rng.chance(1, 2) || salt.ends_with("One")) && !pinned.is_empty() && !rest.is_empty() {
        // everything in one attribute (the silent ones after the structural ones, in a seeded order)
        let mut all = pinned.clone();
        let mut r = rest.clone();
        rng.shuffle(&mut r);
        all.extend(r);
        let _ = writeln!(out, "#[deserr({}{})]", all.join(", "), if rng.chance(1, 3) { "," } else { "" });
        out.push_str(&layout(&[], salt, ""));
        return out;
    }
    if !pinned.is_empty() {
        let _ = writeln!(out, "#[deserr({})]", pinned.join(", "));
    }
    out.push_str(&layout(&rest, salt, ""));
    out
}

fn is_structural(a: &str) -> bool {
    a.starts_with("tag = ") || a.starts_with("where_predicate") || a.starts_with("from(") || a.starts_with("try_from(")
}

fn layout(attrs: &[String], salt: &str, indent: &str) -> String {
    let h = crate::rng::hash_str(salt);
    let mut rng = crate::rng::Rng::new(h);
    if attrs.is_empty() {
        // an item without any deserr attribute may still carry other tools' attributes
        let mut hrng = crate::rng::Rng::new(crate::rng::mix(h, 0xD0C, 0));
        let mut out = if hrng.chance(1, 5) { format!("{indent}#[doc(hidden)]\n") } else { String::new() };
        if let Some(n) = serde_noise(h) {
            let _ = writeln!(out, "{indent}{n}");
        }
        return out;
    }
    let mut a: Vec<String> = attrs.to_vec();
    if rng.chance(1, 2) {
        rng.shuffle(&mut a);
    }
    let mut out = String::new();
    // attributes of other tools may sit before and between deserr's
    let noise = rng.chance(1, 3);
    if rng.chance(1, 4) {
        let _ = writeln!(out, "{indent}#[rustfmt::skip]");
    }
    {
        let mut hrng = crate::rng::Rng::new(crate::rng::mix(h, 0xD0C, 0));
        if hrng.chance(1, 5) {
            let _ = writeln!(out, "{indent}#[doc(hidden)]");
        }
    }
    let serde_noise = serde_noise(h);
    if let (Some(n), true) = (&serde_noise, rng.chance(1, 2)) {
        let _ = writeln!(out, "{indent}{n}");
    }
    match rng.below(4) {
        0 | 1 => {
            // a trailing comma after the last item is legal
            let _ = writeln!(out, "{indent}#[deserr({}{})]", a.join(", "), if rng.chance(1, 3) { "," } else { "" });
        }
        2 => {
            for x in &a {
                let _ = writeln!(out, "{indent}#[deserr({x})]");
                if noise {
                    let _ = writeln!(out, "{indent}#[doc = \"between\"]");
                    let _ = writeln!(out, "{indent}#[rustfmt::skip]");
                }
            }
        }
        _ => {
            let cut = 1 + rng.below(a.len());
            if noise {
                let _ = writeln!(out, "{indent}#[allow(dead_code)]");
            }
            let _ = writeln!(out, "{indent}#[deserr({})]", a[..cut].join(", "));
            if noise {
                let _ = writeln!(out, "{indent}/// a doc comment between two deserr attributes");
            }
            if cut < a.len() {
                let _ = writeln!(out, "{indent}#[deserr({})]", a[cut..].join(", "));
            }
        }
    }
    if let Some(n) = &serde_noise {
        if !out.contains(n.as_str()) {
            let _ = writeln!(out, "{indent}{n}");
        }
    }
    out
}

/// `serde` is a registered helper attribute of the derive (types are often both `Serialize` and
/// `Deserr`): whatever a `#[serde(..)]` attribute says is serde's business and must not influence
/// what deserr does. One item in six carries one, before or after deserr's own attributes.
fn serde_noise(h: u64) -> Option<String> {
    let mut rng = crate::rng::Rng::new(crate::rng::mix(h, 0x5E4DE, 0));
    if !rng.chance(1, 6) {
        return None;
    }
    Some(
        match rng.below(4) {
            0 => "#[serde(rename = \"serdeName\")]",
            1 => "#[serde(rename = \"SERDE_NAME\", default, skip_serializing_if = \"Option::is_none\")]",
            2 => "#[serde(rename_all = \"SCREAMING_SNAKE_CASE\", deny_unknown_fields)]",
            _ => "#[serde(skip, alias = \"serde_alias\")]",
        }
        .to_string(),
    )
}

/// A Rust string literal for `s` in a seeded spelling: as `{:?}` prints it, with every non-ASCII
/// character (and the first ASCII letter) written as an escape sequence, or as a raw string. All
/// spellings denote the same string, which is what `rename` / `tag` are documented to take.
fn lit(s: &str, salt: &str) -> String {
    let mut rng = crate::rng::Rng::new(crate::rng::hash_str(&format!("lit:{salt}:{s}")));
    match rng.below(5) {
        0 => {
            let mut out = String::from("\"");
            let mut first_letter = true;
            for c in s.chars() {
                if !c.is_ascii() {
                    let _ = write!(out, "\\u{{{:x}}}", c as u32);
                } else if c.is_ascii_alphabetic() && first_letter {
                    first_letter = false;
                    let _ = write!(out, "\\x{:02x}", c as u32);
                } else {
                    out.extend(c.escape_default());
                }
            }
            out.push('"');
            out
        }
        1 if !s.contains('\r') => {
            let mut n = 0;
            while s.contains(&format!("\"{}", "#".repeat(n))) {
                n += 1;
            }
            if n == 0 && rng.chance(1, 2) {
                n = 1;
            }
            format!("r{h}\"{s}\"{h}", h = "#".repeat(n))
        }
        _ => format!("{s:?}"),
    }
}

fn rename_all_attr(r: Option<RenameAll>) -> Option<String> {
    r.map(|r| match r {
        RenameAll::Camel => "rename_all = camelCase".to_string(),
        RenameAll::Lower => "rename_all = lowercase".to_string(),
    })
}

fn validate_attr(v: &Validate, name: &str) -> Option<String> {
    match v {
        Validate::No => None,
        Validate::User(n) => Some(format!("validate = validate_cb::<{n}, {name}> -> UserErr")),
        Validate::SameErr(n) => Some(format!(
            "validate = validate_e_cb::<{n}, {name}, __Deserr_E> -> __Deserr_E"
        )),
    }
}

fn deny_attr(d: &Deny) -> Option<String> {
    match d {
        Deny::No => None,
        Deny::Default => Some("deny_unknown_fields".to_string()),
        Deny::Custom(n) => Some(format!("deny_unknown_fields = unknown_cb::<{n}, __Deserr_E>")),
        Deny::CustomUser(n) => Some(format!("deny_unknown_fields = unknown_user_cb::<{n}>")),
    }
}

fn probe_id(d: &Desc) -> u32 {
    match d {
        Desc::Probe(id) => *id,
        other => panic!("conv/map/default-expr fields must be Probe typed, got {other:?}"),
    }
}

fn emit_fields(cat: &Catalogue, fields: &[FieldDef], indent: &str, owner: &str, out: &mut String) {
    for f in fields {
        let mut attrs: Vec<String> = vec![];
        if let Some(r) = &f.rename {
            attrs.push(format!("rename = {}", lit(r, &format!("{owner}.{}", f.ident))));
        }
        if f.skip {
            attrs.push("skip".to_string());
        }
        match &f.default {
            Dflt::No => {}
            Dflt::Trait => attrs.push("default".to_string()),
            Dflt::Expr(t) => attrs.push(format!("default = Probe::<{}>::dflt({t})", probe_id(&f.ty))),
        }
        if let Some(n) = f.missing_fn {
            if f.missing_user {
                attrs.push(format!("missing_field_error = missing_user_cb::<{n}>"));
            } else {
                attrs.push(format!("missing_field_error = missing_cb::<{n}, __Deserr_E>"));
            }
        }
        match &f.conv {
            Conv::No => {}
            Conv::From { src, fn_id, by_ref } => {
                let s = cat.rust_ty(src);
                let p = probe_id(&f.ty);
                if *by_ref {
                    attrs.push(format!("from(&{s}) = from_ref_cb::<{fn_id}, {s}, {p}>"));
                } else {
                    attrs.push(format!("from({s}) = from_cb::<{fn_id}, {s}, {p}>"));
                }
            }
            Conv::TryFrom { src, fn_id, by_ref } => {
                let s = cat.rust_ty(src);
                let p = probe_id(&f.ty);
                if *by_ref {
                    attrs.push(format!("try_from(&{s}) = try_ref_cb::<{fn_id}, {s}, {p}> -> UserErr"));
                } else {
                    attrs.push(format!("try_from({s}) = try_cb::<{fn_id}, {s}, {p}> -> UserErr"));
                }
            }
        }
        if let Some(n) = f.map {
            attrs.push(format!("map = map_cb::<{n}, {}>", probe_id(&f.ty)));
        }
        if f.error_b {
            attrs.push("error = SimErrB".to_string());
        }
        if f.needs_predicate {
            attrs.push("needs_predicate".to_string());
        }
        let _ = write!(out, "{}", layout(&attrs, &format!("{owner}.{}", f.ident), indent));
        let _ = writeln!(out, "{indent}pub {}: {},", f.ident, cat.rust_ty(&f.ty));
    }
}

fn emit_fields_model(fields: &[FieldDef], prefix: &str) -> String {
    fields
        .iter()
        .map(|f| format!("({:?}.to_string(), {prefix}{}.to_model())", f.ident, f.ident))
        .collect::<Vec<_>>()
        .join(", ")
}

pub fn emit(cat: &Catalogue, program_seed: u64, n_gen: usize, uniform: bool) -> String {
    let mut out = String::new();
    let _ = writeln!(out, "// @generated by catgen (simcore::emit); program_seed = {program_seed}. Do not edit.");
    let _ = writeln!(out, "use crate::parties::*;");
    let _ = writeln!(out, "use crate::runner::{{runners_for, Runners}};");
    let _ = writeln!(out, "use deserr::Deserr;");
    let _ = writeln!(out, "use serde_cs::vec::CS;");
    let _ = writeln!(out, "use simcore::mval::MVal;");
    let _ = writeln!(out, "use std::collections::{{BTreeMap, BTreeSet, HashMap, HashSet}};");
    let _ = writeln!(out);
    let _ = writeln!(out, "pub const PROGRAM_SEED: u64 = {program_seed};");
    let _ = writeln!(out, "pub const N_GEN: usize = {n_gen};");
    let _ = writeln!(out, "pub const UNIFORM: bool = {uniform};");
    let _ = writeln!(out, "pub const N_TYPES: usize = {};", cat.types.len());
    let _ = writeln!(out, "pub const N_PROGRAMS: usize = {};", cat.programs.len());
    let _ = writeln!(out);

    for t in &cat.types {
        let name = &t.name;
        match &t.kind {
            TypeKind::Struct { rename_all, deny, validate, fields } => {
                let mut attrs = vec![PREDICATE_USER.to_string(), PREDICATE_B.to_string()];
                attrs.extend(rename_all_attr(*rename_all));
                attrs.extend(deny_attr(deny));
                attrs.extend(validate_attr(validate, name));
                let _ = writeln!(out, "#[derive(Deserr)]");
                let _ = write!(out, "{}", layout_container(&attrs, name));
                let _ = writeln!(out, "pub struct {name} {{");
                emit_fields(cat, fields, "    ", name, &mut out);
                let _ = writeln!(out, "}}");
                let _ = writeln!(out, "impl ToModel for {name} {{");
                let _ = writeln!(out, "    fn to_model(&self) -> MVal {{");
                let _ = writeln!(
                    out,
                    "        MVal::Struct {{ name: {name:?}.to_string(), fields: vec![{}] }}",
                    emit_fields_model(fields, "self.")
                );
                let _ = writeln!(out, "    }}\n}}\n");
            }
            TypeKind::Tagged { tag, rename_all, deny, validate, variants } => {
                let mut attrs = vec![format!("tag = {}", lit(tag, name)), PREDICATE_USER.to_string(), PREDICATE_B.to_string()];
                attrs.extend(rename_all_attr(*rename_all));
                attrs.extend(deny_attr(deny));
                attrs.extend(validate_attr(validate, name));
                emit_enum(cat, name, &attrs, variants, &mut out);
            }
            TypeKind::UnitEnum { rename_all, validate, variants } => {
                let mut attrs = vec![PREDICATE_USER.to_string(), PREDICATE_B.to_string()];
                attrs.extend(rename_all_attr(*rename_all));
                attrs.extend(validate_attr(validate, name));
                emit_enum(cat, name, &attrs, variants, &mut out);
            }
            TypeKind::Wrapper { src, fn_id, fallible, by_ref, validate } => {
                let s = cat.rust_ty(src);
                let amp = if *by_ref { "&" } else { "" };
                let conv = match (fallible, by_ref) {
                    (false, false) => format!("from({s}) = wrap_from_cb::<{fn_id}, {s}, {name}>"),
                    (false, true) => format!("from({amp}{s}) = wrap_from_ref_cb::<{fn_id}, {s}, {name}>"),
                    (true, false) => format!("try_from({s}) = wrap_try_cb::<{fn_id}, {s}, {name}> -> UserErr"),
                    (true, true) => format!("try_from({amp}{s}) = wrap_try_ref_cb::<{fn_id}, {s}, {name}> -> UserErr"),
                };
                let mut attrs = vec![conv, PREDICATE_USER.to_string(), PREDICATE_B.to_string()];
                attrs.extend(validate_attr(validate, name));
                let _ = writeln!(out, "#[derive(Deserr)]");
                let _ = write!(out, "{}", layout_container(&attrs, name));
                let _ = writeln!(out, "pub struct {name} {{\n    pub v: MVal,\n}}");
                let _ = writeln!(out, "impl Wrap for {name} {{\n    fn wrap(v: MVal) -> Self {{\n        {name} {{ v }}\n    }}\n}}");
                let _ = writeln!(out, "impl ToModel for {name} {{\n    fn to_model(&self) -> MVal {{\n        self.v.clone()\n    }}\n}}\n");
            }
        }
    }

    let _ = writeln!(out, "pub fn runners() -> Vec<Runners> {{\n    vec![");
    for p in &cat.programs {
        let _ = writeln!(out, "        runners_for::<{}>(), // {}", cat.rust_ty(&p.root), p.name);
    }
    let _ = writeln!(out, "    ]\n}}");
    out
}

fn emit_enum(cat: &Catalogue, name: &str, attrs: &[String], variants: &[VariantDef], out: &mut String) {
    let _ = writeln!(out, "#[derive(Deserr)]");
    let _ = write!(out, "{}", layout_container(attrs, name));
    let _ = writeln!(out, "pub enum {name} {{");
    for v in variants {
        let mut va: Vec<String> = vec![];
        if let Some(r) = &v.rename {
            va.push(format!("rename = {}", lit(r, &format!("{name}::{}", v.ident))));
        }
        va.extend(rename_all_attr(v.rename_all));
        let _ = write!(out, "{}", layout(&va, &format!("{name}::{}", v.ident), "    "));
        match &v.fields {
            None => {
                let _ = writeln!(out, "    {},", v.ident);
            }
            Some(fields) => {
                let _ = writeln!(out, "    {} {{", v.ident);
                // fields inside variants are not `pub`
                let mut tmp = String::new();
                emit_fields(cat, fields, "        ", &format!("{name}::{}", v.ident), &mut tmp);
                let _ = write!(out, "{}", tmp.replace("        pub ", "        "));
                let _ = writeln!(out, "    }},");
            }
        }
    }
    let _ = writeln!(out, "}}");
    let _ = writeln!(out, "impl ToModel for {name} {{");
    let _ = writeln!(out, "    fn to_model(&self) -> MVal {{\n        match self {{");
    for v in variants {
        match &v.fields {
            None => {
                let _ = writeln!(
                    out,
                    "            {name}::{} => MVal::Variant {{ name: {name:?}.to_string(), variant: {:?}.to_string(), fields: vec![] }},",
                    v.ident, v.ident
                );
            }
            Some(fields) => {
                let binds = fields.iter().map(|f| f.ident.clone()).collect::<Vec<_>>().join(", ");
                let _ = writeln!(
                    out,
                    "            {name}::{} {{ {binds} }} => MVal::Variant {{ name: {name:?}.to_string(), variant: {:?}.to_string(), fields: vec![{}] }},",
                    v.ident,
                    v.ident,
                    emit_fields_model(fields, "")
                );
            }
        }
    }
    let _ = writeln!(out, "        }}\n    }}\n}}\n");
}
