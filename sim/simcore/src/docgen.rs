//! Seeded generation of payload documents for a catalogue program, and the source faults
//! (SRC-*) applied to them. Everything is drawn from the `Rng` handed in.

use crate::desc::*;
use crate::doc::{Doc, Path, Step};
use crate::rng::Rng;

const WORDS: [&str; 10] = ["a", "b", "bork", "jorts", "doggo", "x1", "Zed", "mid_dle", "", "say \"hi\""];

#[derive(Clone, Debug, Default)]
pub struct FaultCounts {
    pub drop: u32,
    pub null: u32,
    pub corrupt: u32,
    pub range: u32,
    pub arity: u32,
    pub badkey: u32,
    pub spurious: u32,
    pub nearmiss: u32,
    pub tag: u32,
    pub dup: u32,
    pub exotic: u32,
    pub nonfinite: u32,
    pub collide: u32,
    /// of the corrupt faults, those that planted a very large value
    pub huge: u32,
}

impl FaultCounts {
    pub fn total(&self) -> u32 {
        self.drop + self.null + self.corrupt + self.range + self.arity + self.badkey + self.spurious + self.nearmiss + self.tag + self.dup + self.exotic + self.nonfinite + self.collide
    }
    pub fn add(&mut self, o: &FaultCounts) {
        self.drop += o.drop;
        self.null += o.null;
        self.corrupt += o.corrupt;
        self.range += o.range;
        self.arity += o.arity;
        self.badkey += o.badkey;
        self.spurious += o.spurious;
        self.nearmiss += o.nearmiss;
        self.tag += o.tag;
        self.dup += o.dup;
        self.exotic += o.exotic;
        self.nonfinite += o.nonfinite;
        self.collide += o.collide;
        self.huge += o.huge;
    }
    pub fn as_pairs(&self) -> Vec<(&'static str, u32)> {
        vec![
            ("SRC-DROP", self.drop),
            ("SRC-NULL", self.null),
            ("SRC-CORRUPT", self.corrupt),
            ("SRC-RANGE", self.range),
            ("SRC-ARITY", self.arity),
            ("SRC-BADKEY", self.badkey),
            ("SRC-SPURIOUS", self.spurious),
            ("SRC-NEARMISS", self.nearmiss),
            ("SRC-TAG", self.tag),
            ("SRC-DUP", self.dup),
            ("SRC-EXOTIC", self.exotic),
            ("SRC-NONFINITE", self.nonfinite),
            ("SRC-KEYCOLLIDE", self.collide),
            ("SRC-HUGE", self.huge),
        ]
    }
}

#[derive(Clone, Debug)]
pub struct GenCfg {
    /// maximum length of generated sequences / maps
    pub max_len: usize,
    /// remaining recursion budget for self-referential types
    pub depth: usize,
}

pub fn random_scalar(rng: &mut Rng) -> Doc {
    // now and then a value at the edge of what the payload can carry
    if rng.chance(1, 12) {
        return match rng.below(6) {
            0 => Doc::Int(u64::MAX),
            1 => Doc::Int(i64::MAX as u64 + 1),
            2 => Doc::Neg(i64::MIN),
            3 => Doc::Float(-0.0),
            4 => Doc::Float(5e-324),
            _ => Doc::Str("line\nbreak \\ \u{7f}".to_string()),
        };
    }
    match rng.below(8) {
        0 => Doc::Null,
        1 => Doc::Bool(rng.chance(1, 2)),
        2 | 3 => Doc::Int(rng.below(300) as u64),
        4 => Doc::Neg(-(1 + rng.below(300) as i64)),
        5 => Doc::Float((rng.below(2000) as f64 - 1000.0) / 8.0 + 0.0625),
        _ => Doc::Str(rng.pick(&WORDS).to_string()),
    }
}

pub fn random_doc(rng: &mut Rng, depth: usize) -> Doc {
    if depth == 0 || rng.chance(3, 5) {
        return random_scalar(rng);
    }
    if rng.chance(1, 2) {
        let n = rng.below(4);
        Doc::Seq((0..n).map(|_| random_doc(rng, depth - 1)).collect())
    } else {
        let n = rng.below(4);
        let mut m: Vec<(String, Doc)> = vec![];
        for _ in 0..n {
            let k = rng.pick(&WORDS).to_string();
            if m.iter().all(|(k2, _)| *k2 != k) {
                m.push((k, random_doc(rng, depth - 1)));
            }
        }
        Doc::Map(m)
    }
}

fn int_doc(v: i128) -> Doc {
    if v >= 0 {
        Doc::Int(v as u64)
    } else {
        Doc::Neg(v as i64)
    }
}

fn valid_int(t: IntTy, rng: &mut Rng) -> Doc {
    // the payload can only carry u64 / i64
    let lo = t.min.max(i64::MIN as i128);
    let hi = t.max.min(u64::MAX as i128);
    let mut v = match rng.below(6) {
        0 => lo,
        1 => hi,
        2 => 1,
        3 => -1,
        4 => rng.below(1000) as i128,
        _ => -(rng.below(1000) as i128),
    };
    if v < lo || v > hi {
        v = hi.min(7);
    }
    if t.nonzero && v == 0 {
        v = 1;
    }
    int_doc(v)
}

fn valid_scalar(s: Sc, rng: &mut Rng) -> Doc {
    if let Sc::Int(t) = s {
        return valid_int(t, rng);
    }
    match s {
        Sc::Int(_) => unreachable!(),
        Sc::F32 => match rng.below(4) {
            0 => Doc::Int(rng.below(100) as u64),
            1 => Doc::Neg(-(1 + rng.below(100) as i64)),
            2 => Doc::Float(0.1),
            _ => Doc::Float(rng.below(1000) as f64 / 4.0),
        },
        Sc::Bool => Doc::Bool(rng.chance(1, 2)),
        Sc::U8 => Doc::Int(*rng.pick(&[0u64, 1, 7, 42, 200, 255])),
        Sc::I32 => match rng.below(5) {
            0 => Doc::Int(0),
            1 => Doc::Int(i32::MAX as u64),
            2 => Doc::Neg(i32::MIN as i64),
            3 => Doc::Neg(-(1 + rng.below(1000) as i64)),
            _ => Doc::Int(rng.below(1000) as u64),
        },
        Sc::U64 => match rng.below(4) {
            0 => Doc::Int(u64::MAX),
            1 => Doc::Int(0),
            _ => Doc::Int(rng.next() >> rng.below(64)),
        },
        Sc::Str => Doc::Str(match rng.below(6) {
            0 => String::new(),
            1 => "héllo wörld".to_string(),
            _ => rng.pick(&WORDS).to_string(),
        }),
        Sc::Char => Doc::Str(rng.pick(&["a", "Z", "é", "0", " ", "漢"]).to_string()),
        Sc::F64 => match rng.below(4) {
            0 => Doc::Int(rng.below(100) as u64),
            1 => Doc::Neg(-(1 + rng.below(100) as i64)),
            2 => Doc::Float(1.0e300),
            _ => Doc::Float(rng.below(1000) as f64 / 7.0),
        },
        Sc::Unit => Doc::Null,
    }
}

fn valid_keys(k: KeyTy, n: usize, rng: &mut Rng) -> Vec<String> {
    let mut out: Vec<String> = vec![];
    let mut tries = 0;
    while out.len() < n && tries < 40 {
        tries += 1;
        let s = match k {
            KeyTy::Str => match rng.below(16) {
                0 | 1 => String::new(),
                2 => rng.pick(&["col\tumn", "line\nfeed", "\u{1b}[0m", "nul\0", "back\\slash", "quo\"te"]).to_string(),
                _ => rng.pick(&WORDS).to_string(),
            },
            KeyTy::U8 => rng.below(256).to_string(),
            KeyTy::I32 => (rng.below(2001) as i64 - 1000).to_string(),
            KeyTy::Char => rng.pick(&["a", "b", "c", "Z", "é", "7", "\n", "\t", " ", "\\"]).to_string(),
        };
        if !out.contains(&s) {
            out.push(s);
        }
    }
    out
}

fn cs_valid(s: Sc, rng: &mut Rng) -> Doc {
    let n = rng.below(4);
    let mut pieces: Vec<String> = vec![];
    for _ in 0..n {
        pieces.push(match s {
            Sc::U8 => rng.below(256).to_string(),
            Sc::I32 => (rng.below(2001) as i64 - 1000).to_string(),
            Sc::U64 => rng.below(100000).to_string(),
            Sc::Bool => (if rng.chance(1, 2) { "true" } else { "false" }).to_string(),
            _ => rng.pick(&WORDS).to_string(),
        });
    }
    // pieces are taken verbatim: surrounding whitespace belongs to the piece (so " 2" is not a
    // number, and " x" is the string " x"), and a whitespace-only piece is a piece
    if !pieces.is_empty() && rng.chance(1, 6) {
        let i = rng.below(pieces.len());
        pieces[i] = match rng.below(4) {
            0 => format!(" {}", pieces[i]),
            1 => format!("{} ", pieces[i]),
            2 => " ".to_string(),
            _ => format!("\t{}", pieces[i]),
        };
    }
    // the comma is the only separator: ';', '|', ':', '/', blank and tab between two pieces make one
    // piece of them (a string with that character in it, or something that is not a number), and one
    // of them alone is a piece
    let odd = if rng.chance(1, 6) { Some((rng.below(pieces.len().max(1)), *rng.pick(&[";", ";", "|", ":", "/", " ", "\t"]))) } else { None };
    let mut text = String::new();
    for (i, p) in pieces.iter().enumerate() {
        if i > 0 {
            text.push_str(match odd {
                Some((at, sep)) if at + 1 == i => sep,
                _ => ",",
            });
        }
        text.push_str(p);
    }
    if let (true, Some((_, sep))) = (pieces.len() < 2, odd) {
        text.push_str(sep);
    }
    // empty pieces are legal and dropped
    if rng.chance(1, 5) {
        text.push(',');
    }
    if rng.chance(1, 8) {
        text = format!(",{text}");
    }
    // brackets are characters like any other: "[a,b]" is the two pieces "[a" and "b]"
    if matches!(s, Sc::Str) && rng.chance(1, 10) {
        text = format!("[{text}]");
    }
    Doc::Str(text)
}

pub fn gen_valid(cat: &Catalogue, d: &Desc, rng: &mut Rng, cfg: &GenCfg) -> Doc {
    // now and then a sequence / object of a dozen or more entries (two-digit indexes)
    let len = |rng: &mut Rng| {
        if cfg.depth == 0 {
            0
        } else if rng.chance(1, 40) {
            10 + rng.below(25)
        } else {
            rng.below(cfg.max_len + 1)
        }
    };
    let deeper = GenCfg { max_len: cfg.max_len, depth: cfg.depth.saturating_sub(1) };
    match d {
        Desc::Probe(_) => random_doc(rng, 2),
        Desc::Scalar(s) => valid_scalar(*s, rng),
        Desc::Option(x) => {
            if cfg.depth == 0 || rng.chance(1, 4) {
                Doc::Null
            } else {
                gen_valid(cat, x, rng, cfg)
            }
        }
        Desc::Boxed(x) => gen_valid(cat, x, rng, cfg),
        Desc::Vec(x) | Desc::HashSet(x) | Desc::BTreeSet(x) => {
            let n = len(rng);
            Doc::Seq((0..n).map(|_| gen_valid(cat, x, rng, &deeper)).collect())
        }
        Desc::HashMap(k, x) | Desc::BTreeMap(k, x) => {
            let n = len(rng);
            let keys = valid_keys(*k, n, rng);
            Doc::Map(keys.into_iter().map(|k| (k, gen_valid(cat, x, rng, &deeper))).collect())
        }
        Desc::Array(n, x) => Doc::Seq((0..*n).map(|_| gen_valid(cat, x, rng, &deeper)).collect()),
        Desc::Tuple(xs) => Doc::Seq(xs.iter().map(|x| gen_valid(cat, x, rng, &deeper)).collect()),
        Desc::Cs(s) => cs_valid(*s, rng),
        Desc::Json | Desc::Phantom => random_doc(rng, 3),
        Desc::Named(i) => {
            let t = &cat.types[*i];
            match &t.kind {
                TypeKind::Struct { rename_all, fields, .. } => {
                    Doc::Map(gen_members(cat, fields, *rename_all, rng, &deeper))
                }
                TypeKind::Tagged { tag, rename_all, variants, .. } => {
                    let v = rng.pick(variants);
                    let mut members = match &v.fields {
                        None => vec![],
                        Some(fields) => gen_members(cat, fields, v.rename_all, rng, &deeper),
                    };
                    // a field whose key equals the tag key can never be delivered separately
                    members.retain(|(k, _)| k != tag);
                    let pos = rng.below(members.len() + 1);
                    members.insert(pos, (tag.clone(), Doc::Str(effective_key(&v.ident, &v.rename, *rename_all))));
                    Doc::Map(members)
                }
                TypeKind::UnitEnum { rename_all, variants, .. } => {
                    let v = rng.pick(variants);
                    Doc::Str(effective_key(&v.ident, &v.rename, *rename_all))
                }
                TypeKind::Wrapper { src, .. } => gen_valid(cat, src, rng, cfg),
            }
        }
    }
}

fn gen_members(
    cat: &Catalogue,
    fields: &[FieldDef],
    rename_all: Option<RenameAll>,
    rng: &mut Rng,
    cfg: &GenCfg,
) -> Vec<(String, Doc)> {
    let mut m = vec![];
    for f in fields {
        if f.skip {
            continue;
        }
        let present = if f.default != Dflt::No { cfg.depth > 0 && rng.chance(3, 5) } else { true };
        let key = f.key(rename_all);
        // two fields resolving to the same key: the payload still has one entry for it
        if m.iter().any(|(k, _)| *k == key) {
            continue;
        }
        if present {
            m.push((key, gen_valid(cat, f.src_ty(), rng, cfg)));
        }
    }
    m
}

// ---------------------------------------------------------------------------------------------
// source faults
// ---------------------------------------------------------------------------------------------

#[derive(Clone, Debug)]
pub struct FaultCfg {
    /// probability (per thousand) that a visited node receives a fault
    pub rate_pm: usize,
    pub drop: bool,
    pub null: bool,
    pub corrupt: bool,
    pub range: bool,
    pub arity: bool,
    pub badkey: bool,
    pub spurious: bool,
    pub tag: bool,
    pub dup: bool,
    pub exotic: bool,
    /// NaN / infinities (a second value source can deliver them; serde_json cannot)
    pub nonfinite: bool,
    /// two distinct string keys that parse to the same map key ("7" and "+7")
    pub collide: bool,
}

impl FaultCfg {
    pub fn none() -> FaultCfg {
        FaultCfg {
            rate_pm: 0,
            drop: false,
            null: false,
            corrupt: false,
            range: false,
            arity: false,
            badkey: false,
            spurious: false,
            tag: false,
            dup: false,
            exotic: false,
            nonfinite: false,
            collide: false,
        }
    }
    pub fn all(rate_pm: usize) -> FaultCfg {
        FaultCfg {
            rate_pm,
            drop: true,
            null: true,
            corrupt: true,
            range: true,
            arity: true,
            badkey: true,
            spurious: true,
            tag: true,
            dup: false,
            exotic: false,
            nonfinite: false,
            collide: false,
        }
    }
}

/// A value whose rendering runs to hundreds or thousands of bytes, made of characters of every
/// UTF-8 width and of characters JSON must escape, so that any fixed byte offset falls inside a
/// multi-byte character for some of them.
fn huge_doc(rng: &mut Rng) -> Doc {
    const UNITS: [&str; 8] = ["a", "b", "é", "漢", "😀", "\"", "\\", "ß"];
    let text = |rng: &mut Rng, n: usize| -> String { (0..n).map(|_| *rng.pick(&UNITS)).collect() };
    match rng.below(3) {
        0 => {
            let n = 150 + rng.below(1100);
            Doc::Str(text(rng, n))
        }
        1 => {
            let n = 60 + rng.below(300);
            Doc::Seq(
                (0..n)
                    .map(|i| if rng.chance(1, 3) { Doc::Int(i as u64) } else { let k = 1 + rng.below(6); Doc::Str(text(rng, k)) })
                    .collect(),
            )
        }
        _ => {
            let n = 40 + rng.below(160);
            Doc::Map(
                (0..n)
                    .map(|i| {
                        let k = 1 + rng.below(4);
                        (format!("{}{i}", text(rng, k)), if rng.chance(1, 2) { Doc::Null } else { Doc::Str(text(rng, 2)) })
                    })
                    .collect(),
            )
        }
    }
}

pub fn is_huge(doc: &Doc) -> bool {
    match doc {
        Doc::Str(s) => s.len() >= 150,
        Doc::Seq(v) => v.len() >= 60,
        Doc::Map(m) => m.len() >= 40,
        _ => false,
    }
}

fn other_kind(doc: &Doc, rng: &mut Rng) -> Doc {
    if rng.chance(1, 12) {
        let h = huge_doc(rng);
        if h.kind() != doc.kind() {
            return h;
        }
    }
    for _ in 0..10 {
        let c = match rng.below(8) {
            0 => Doc::Null,
            1 => Doc::Bool(true),
            2 => Doc::Int(match rng.below(8) {
                0 | 1 => u64::MAX - rng.below(3) as u64,
                // the edges of what narrower targets and `char` can hold: a wrong kind stays a wrong
                // kind whatever the number (65 is not 'A', 0xD800 is not a character)
                2 => *rng.pick(&[65u64, 255, 256, 65535, 65536, u32::MAX as u64, u32::MAX as u64 + 1]),
                3 => *rng.pick(&[0xD7FFu64, 0xD800, 0xDBFF, 0xDFFF, 0xE000, 0x10FFFF, 0x110000]),
                _ => rng.below(10) as u64,
            }),
            3 => Doc::Neg(if rng.chance(1, 4) { i64::MIN } else { -3 }),
            // fractional, integral (a float is a float: 3.0 is not the integer 3), and integral
            // beyond what any integer of the payload can hold
            4 => Doc::Float(*rng.pick(&[2.5, 2.5, 2.5, 3.0, -7.0, 9007199254740992.0, 18446744073709551616.0, 1e20, -1e30])),
            5 => Doc::Str(
                rng.pick(&[
                    "oops",
                    "oops",
                    "\u{1b}[31mred\u{1b}[0m",
                    "nul\0byte",
                    "tab\tquote\"back\\slash",
                    "\u{200b}zero-width",
                    "del\u{7f}",
                    "\u{8}\u{c}",
                    "",
                ])
                .to_string(),
            ),
            6 => {
                if rng.chance(1, 3) {
                    Doc::Seq(vec![])
                } else {
                    Doc::Seq(vec![Doc::Int(1), Doc::Str("two".into())])
                }
            }
            _ => match rng.below(6) {
                0 | 1 => Doc::Map(vec![]),
                // an object whose keys look like positions (how a query string spells a list) is an
                // object: dense, with a gap, out of numeric order, and long enough for a sorted map
                // to yield "10" before "2"
                2 => {
                    let keys: &[&str] = *rng.pick(&[&["0"][..], &["0", "1", "2"], &["0", "2"], &["1", "0"], &["0", "5", "1"]]);
                    Doc::Map(keys.iter().map(|k| (k.to_string(), Doc::Int(7))).collect())
                }
                3 if rng.chance(1, 3) => Doc::Map((0..12u64).map(|i| (i.to_string(), Doc::Int(i))).collect()),
                _ => Doc::Map(vec![("k".to_string(), Doc::Null)]),
            },
        };
        if c.kind() != doc.kind() {
            return c;
        }
    }
    Doc::Null
}

fn near_misses(key: &str, ident: &str, rng: &mut Rng) -> String {
    let cands = [
        key.to_uppercase(),
        key.to_lowercase(),
        camel(key),
        ident.to_string(),
        camel(ident),
        ident.to_lowercase(),
        format!("{key}_"),
        format!("_{key}"),
        format!("r#{key}"),
        format!(" {key}"),
        format!("{key} "),
        format!("{key}\t"),
        format!("{key}x"),
        key.chars().take(key.chars().count().saturating_sub(1)).collect::<String>(),
        key.chars().skip(1).collect::<String>(),
        key.replace('_', "-"),
        key.replace('_', ""),
        {
            // snake_case of a camelCase key
            let mut s = String::new();
            for c in key.chars() {
                if c.is_uppercase() && !s.is_empty() {
                    s.push('_');
                }
                s.extend(c.to_lowercase());
            }
            s
        },
        {
            // a letter dropped between two letters that are also swapped ("abc" -> "ca"): one
            // deletion + one transposition of the letters around it
            let mut cs: Vec<char> = key.chars().collect();
            if cs.len() >= 3 {
                let i = rng.below(cs.len() - 2);
                let (a, c) = (cs[i], cs[i + 2]);
                cs[i] = c;
                cs[i + 1] = a;
                cs.remove(i + 2);
            }
            cs.into_iter().collect()
        },
        {
            // two adjacent characters swapped
            let mut cs: Vec<char> = key.chars().collect();
            if cs.len() >= 2 {
                let i = rng.below(cs.len() - 1);
                cs.swap(i, i + 1);
            }
            cs.into_iter().collect()
        },
        {
            // one edit
            let mut cs: Vec<char> = key.chars().collect();
            if cs.is_empty() {
                cs.push('x');
            } else {
                let i = rng.below(cs.len());
                cs[i] = if cs[i] == 'q' { 'z' } else { 'q' };
            }
            cs.into_iter().collect()
        },
        {
            let mut cs: Vec<char> = key.chars().collect();
            if let Some(c) = cs.first_mut() {
                *c = if c.is_uppercase() { c.to_ascii_lowercase() } else { c.to_ascii_uppercase() };
            }
            cs.into_iter().collect()
        },
    ];
    rng.pick(&cands).clone()
}

pub struct Mutator<'a> {
    pub cat: &'a Catalogue,
    pub cfg: FaultCfg,
    pub counts: FaultCounts,
}

impl<'a> Mutator<'a> {
    fn hit(&self, rng: &mut Rng) -> bool {
        self.cfg.rate_pm > 0 && rng.below(1000) < self.cfg.rate_pm
    }

    pub fn mutate(&mut self, d: &Desc, doc: &mut Doc, rng: &mut Rng) {
        // generic faults applicable anywhere
        if self.cfg.corrupt && self.hit(rng) {
            *doc = other_kind(doc, rng);
            self.counts.corrupt += 1;
            if is_huge(doc) {
                self.counts.huge += 1;
            }
            return;
        }
        if self.cfg.null && self.hit(rng) && !matches!(doc, Doc::Null) {
            *doc = Doc::Null;
            self.counts.null += 1;
            return;
        }
        if self.cfg.nonfinite && self.hit(rng) {
            *doc = Doc::Float(*rng.pick(&[f64::NAN, f64::INFINITY, f64::NEG_INFINITY]));
            self.counts.nonfinite += 1;
            return;
        }
        if self.cfg.exotic && self.hit(rng) {
            *doc = match rng.below(5) {
                0 => Doc::Float(f64::NAN),
                1 => Doc::Float(f64::INFINITY),
                2 => Doc::Neg(rng.below(5) as i64),
                3 => Doc::Float(f64::NEG_INFINITY),
                _ => Doc::Seq(vec![Doc::Float(f64::NAN), Doc::Map(vec![("n".into(), Doc::Float(f64::NAN)), ("m".into(), Doc::Neg(0))])]),
            };
            self.counts.exotic += 1;
            return;
        }
        match d {
            Desc::Probe(_) | Desc::Phantom => {}
            Desc::Json => self.free_form(doc, rng),
            Desc::Scalar(s) => {
                if self.cfg.range && self.hit(rng) {
                    let new = match s {
                        Sc::Int(t) => {
                            // just outside the domain, where the payload can express it
                            let mut c: Vec<Doc> = vec![];
                            if t.max < u64::MAX as i128 {
                                c.push(int_doc(t.max + 1));
                            }
                            // further out: not a multiple of 2^bits (a wrapping cast keeps it non-zero),
                            // and beyond i64 for the signed targets the payload can still exceed
                            if t.max < u64::MAX as i128 - 45 {
                                c.push(int_doc(t.max + 2 + rng.below(43) as i128));
                            }
                            if t.max < u64::MAX as i128 {
                                c.push(Doc::Int(u64::MAX - rng.below(7) as u64));
                                c.push(Doc::Int(i64::MAX as u64 + 1 + rng.below(5) as u64));
                            }
                            if t.min > i64::MIN as i128 {
                                c.push(int_doc(t.min - 1));
                            }
                            if t.nonzero {
                                c.push(Doc::Int(0));
                            }
                            if !t.signed {
                                c.push(Doc::Neg(-1));
                            }
                            if c.is_empty() {
                                None
                            } else {
                                Some(rng.pick(&c).clone())
                            }
                        }
                        Sc::U8 => Some(Doc::Int(*rng.pick(&[256u64, 300, u64::MAX]))),
                        Sc::I32 => Some(if rng.chance(1, 2) { Doc::Int(i32::MAX as u64 + 1) } else { Doc::Neg(i32::MIN as i64 - 1) }),
                        Sc::Char => Some(Doc::Str(rng.pick(&["", "ab", "漢字", "a\nb", "x\r\ny"]).to_string())),
                        Sc::U64 => Some(Doc::Neg(-1)),
                        // finite, far beyond f32: rounds to an infinity, which is what an f32 holds then
                        Sc::F32 => Some(Doc::Float(*rng.pick(&[1e39, -1e40, 1e300, f64::MAX]))),
                        _ => None,
                    };
                    if let Some(n) = new {
                        *doc = n;
                        self.counts.range += 1;
                    }
                }
            }
            Desc::Option(x) | Desc::Boxed(x) => self.mutate(x, doc, rng),
            Desc::Vec(x) | Desc::HashSet(x) | Desc::BTreeSet(x) => {
                if let Doc::Seq(items) = doc {
                    for it in items.iter_mut() {
                        self.mutate(x, it, rng);
                    }
                }
            }
            Desc::HashMap(k, x) | Desc::BTreeMap(k, x) => {
                if let Doc::Map(members) = doc {
                    for (_, v) in members.iter_mut() {
                        self.mutate(x, v, rng);
                    }
                    // one to three unparsable keys (several in one object: what is reported for
                    // them must not depend on their order)
                    let n_bad = if self.cfg.badkey && self.hit(rng) { 1 + rng.below(3).saturating_sub(1) + rng.below(2) } else { 0 };
                    for _ in 0..n_bad {
                        let long_non_ascii: String = "é".repeat(40);
                        let bad = match k {
                            KeyTy::Str => None,
                            _ if rng.chance(1, 8) => Some(if rng.chance(1, 2) { long_non_ascii } else { "かきくけこ".repeat(6) }),
                            KeyTy::U8 => Some(rng.pick(&["abc", "256", "-1", "", "1.5", "say \"7\"", "back\\slash", "7\n", "cafe\u{301}"]).to_string()),
                            KeyTy::I32 => Some(rng.pick(&["x", "99999999999", "", "1e3", "\"1\"", "1\t"]).to_string()),
                            KeyTy::Char => Some(rng.pick(&["ab", "", "abc", "\"\"", "\\n"]).to_string()),
                        };
                        // or a blank-padded spelling of a key the object already has: unparsable
                        // for every key type but String, and equal to its neighbour once trimmed
                        let bad = match (bad, k) {
                            (Some(_), KeyTy::U8 | KeyTy::I32 | KeyTy::Char) if !members.is_empty() && rng.chance(1, 4) => {
                                let (k0, _) = rng.pick(members).clone();
                                Some(match rng.below(3) {
                                    0 => format!(" {k0}"),
                                    1 => format!("{k0} "),
                                    _ => format!("\t{k0}"),
                                })
                            }
                            (b, _) => b,
                        };
                        if let Some(b) = bad {
                            if members.iter().all(|(k2, _)| *k2 != b) {
                                let pos = rng.below(members.len() + 1);
                                members.insert(pos, (b, random_scalar(rng)));
                                self.counts.badkey += 1;
                            }
                        }
                    }
                    if self.cfg.collide && !members.is_empty() && self.hit(rng) {
                        // another spelling of an existing key, delivered later with its own value
                        let i = rng.below(members.len());
                        let alt = match k {
                            KeyTy::U8 | KeyTy::I32 => {
                                let key = &members[i].0;
                                if k.parse(key).is_some() && !key.starts_with('+') && !key.starts_with('-') {
                                    Some(if rng.chance(1, 2) { format!("+{key}") } else { format!("0{key}") })
                                } else {
                                    None
                                }
                            }
                            _ => None,
                        };
                        if let Some(a) = alt {
                            if members.iter().all(|(k2, _)| *k2 != a) {
                                let v = members[rng.below(members.len())].1.clone();
                                let pos = rng.below(members.len() + 1);
                                members.insert(pos, (a, v));
                                self.counts.collide += 1;
                            }
                        }
                    }
                    self.dup(members, rng);
                }
            }
            Desc::Array(_, x) => {
                if let Doc::Seq(items) = doc {
                    for it in items.iter_mut() {
                        self.mutate(x, it, rng);
                    }
                    self.arity(items, rng);
                }
            }
            Desc::Tuple(xs) => {
                if let Doc::Seq(items) = doc {
                    for (x, it) in xs.iter().zip(items.iter_mut()) {
                        self.mutate(x, it, rng);
                    }
                    self.arity(items, rng);
                }
            }
            Desc::Cs(s) => {
                if self.cfg.range && self.hit(rng) && !matches!(s, Sc::Str) {
                    if let Doc::Str(t) = doc {
                        if rng.chance(1, 4) {
                            *t = format!("[{t}]");
                        } else {
                            t.push_str(",zz");
                        }
                        self.counts.range += 1;
                    }
                }
            }
            Desc::Named(i) => {
                let cat = self.cat;
                match &cat.types[*i].kind {
                    TypeKind::Struct { rename_all, fields, .. } => {
                        if let Doc::Map(members) = doc {
                            self.members(fields, *rename_all, None, members, rng);
                        }
                    }
                    TypeKind::Tagged { tag, rename_all, variants, .. } => {
                        if let Doc::Map(members) = doc {
                            let name = members.iter().find(|(k, _)| k == tag).and_then(|(_, v)| match v {
                                Doc::Str(s) => Some(s.clone()),
                                _ => None,
                            });
                            let variant = name
                                .as_ref()
                                .and_then(|n| variants.iter().find(|v| effective_key(&v.ident, &v.rename, *rename_all) == *n));
                            if let Some(v) = variant {
                                if let Some(fields) = &v.fields {
                                    self.members(fields, v.rename_all, Some(tag), members, rng);
                                } else if self.cfg.spurious && self.hit(rng) {
                                    members.push(("stray".to_string(), Doc::Int(1)));
                                    self.counts.spurious += 1;
                                }
                            }
                            if self.cfg.tag && self.hit(rng) {
                                self.counts.tag += 1;
                                let pos = members.iter().position(|(k, _)| k == tag);
                                match (rng.below(6), pos) {
                                    (0, Some(p)) => {
                                        members.remove(p);
                                    }
                                    (1, Some(p)) => {
                                        // a tag of the wrong kind; where a variant answers to a number's
                                        // spelling, sometimes that very number (a number is not a string)
                                        let numeric: Vec<u64> = variants
                                            .iter()
                                            .filter_map(|v| effective_key(&v.ident, &v.rename, *rename_all).parse::<u64>().ok())
                                            .collect();
                                        members[p].1 = if !numeric.is_empty() && rng.chance(1, 2) {
                                            Doc::Int(*rng.pick(&numeric))
                                        } else {
                                            other_kind(&Doc::Str(String::new()), rng)
                                        };
                                    }
                                    (2, Some(p)) => {
                                        members[p].1 = Doc::Str(rng.pick(&["NoSuchVariant", "Énumération_inconnue_très_longue", "abcéx", ""]).to_string())
                                    }
                                    (3, Some(p)) => {
                                        // near miss of a real variant name, or the un-renamed identifier
                                        let v = rng.pick(variants);
                                        let key = effective_key(&v.ident, &v.rename, *rename_all);
                                        members[p].1 = Doc::Str(near_misses(&key, &v.ident, rng));
                                    }
                                    (4, Some(p)) => {
                                        // move the tag to the front or the back
                                        let m = members.remove(p);
                                        if rng.chance(1, 2) {
                                            members.insert(0, m);
                                        } else {
                                            members.push(m);
                                        }
                                    }
                                    (_, Some(p)) => {
                                        // switch to another variant while keeping the members
                                        let v = rng.pick(variants);
                                        members[p].1 = Doc::Str(effective_key(&v.ident, &v.rename, *rename_all));
                                    }
                                    (_, None) => {}
                                }
                            }
                        }
                    }
                    TypeKind::UnitEnum { rename_all, variants, .. } => {
                        if self.cfg.tag && self.hit(rng) {
                            self.counts.tag += 1;
                            let v = rng.pick(variants);
                            let key = effective_key(&v.ident, &v.rename, *rename_all);
                            *doc = match rng.below(5) {
                                // a string is the only kind a unit-only enum reads: not a list
                                // holding the name, not the number a name spells
                                3 => Doc::Seq(vec![Doc::Str(key.clone())]),
                                4 => match key.parse::<i64>() {
                                    Ok(n) if n >= 0 => Doc::Int(n as u64),
                                    Ok(n) => Doc::Neg(n),
                                    Err(_) => Doc::Int(7),
                                },
                                0 => Doc::Str(rng.pick(&["NoSuchVariant", "Énumération_inconnue_très_longue", "abcéx", " sideways ", "NoSuchVariant\t", "  x"]).to_string()),
                                1 => Doc::Str(near_misses(&key, &v.ident, rng)),
                                _ => Doc::Str(String::new()),
                            };
                        }
                    }
                    TypeKind::Wrapper { src, .. } => self.mutate(src, doc, rng),
                }
            }
        }
    }

    /// inside a free-form (`serde_json::Value`) target the only thing that can go wrong is a
    /// value JSON cannot hold: scatter non-finite floats through the subtree (several in the same
    /// array / object matter: accumulation and stop answers inside that impl)
    fn free_form(&mut self, doc: &mut Doc, rng: &mut Rng) {
        if !self.cfg.nonfinite {
            return;
        }
        match doc {
            Doc::Seq(items) => {
                for it in items.iter_mut() {
                    if rng.below(1000) < self.cfg.rate_pm * 3 {
                        *it = Doc::Float(*rng.pick(&[f64::NAN, f64::INFINITY, f64::NEG_INFINITY]));
                        self.counts.nonfinite += 1;
                    } else {
                        self.free_form(it, rng);
                    }
                }
            }
            Doc::Map(members) => {
                for (_, it) in members.iter_mut() {
                    if rng.below(1000) < self.cfg.rate_pm * 3 {
                        *it = Doc::Float(*rng.pick(&[f64::NAN, f64::INFINITY, f64::NEG_INFINITY]));
                        self.counts.nonfinite += 1;
                    } else {
                        self.free_form(it, rng);
                    }
                }
            }
            _ => {}
        }
    }

    fn arity(&mut self, items: &mut Vec<Doc>, rng: &mut Rng) {
        if self.cfg.arity && self.hit(rng) {
            if !items.is_empty() && rng.chance(1, 6) {
                // nothing at all where N elements are due
                items.clear();
            } else if items.is_empty() || rng.chance(1, 2) {
                items.push(random_scalar(rng));
            } else {
                items.pop();
            }
            self.counts.arity += 1;
        }
    }

    fn dup(&mut self, members: &mut Vec<(String, Doc)>, rng: &mut Rng) {
        if self.cfg.dup && !members.is_empty() && self.hit(rng) {
            let i = rng.below(members.len());
            let mut m = members[i].clone();
            if rng.chance(1, 2) {
                m.1 = random_scalar(rng);
            }
            let pos = rng.below(members.len() + 1);
            members.insert(pos, m);
            self.counts.dup += 1;
        }
    }

    fn members(
        &mut self,
        fields: &[FieldDef],
        rename_all: Option<RenameAll>,
        tag: Option<&String>,
        members: &mut Vec<(String, Doc)>,
        rng: &mut Rng,
    ) {
        // recurse into delivered known members
        for (k, v) in members.iter_mut() {
            if let Some(f) = fields.iter().find(|f| !f.skip && f.key(rename_all) == *k) {
                if tag.map(|t| t == k).unwrap_or(false) {
                    continue;
                }
                self.mutate(f.src_ty(), v, rng);
            }
        }
        // drop a member
        if self.cfg.drop {
            let mut i = 0;
            while i < members.len() {
                let is_tag = tag.map(|t| *t == members[i].0).unwrap_or(false);
                if !is_tag && self.hit(rng) {
                    members.remove(i);
                    self.counts.drop += 1;
                } else {
                    i += 1;
                }
            }
        }
        // spurious members: random keys, names of skipped fields, near misses of real keys
        if self.cfg.spurious {
            let n_extra = if self.hit(rng) { 1 + rng.below(2) } else { 0 };
            for _ in 0..n_extra {
                let (key, near) = if !fields.is_empty() && rng.chance(2, 3) {
                    let f = rng.pick(fields);
                    let k = if f.skip { f.ident.clone() } else { near_misses(&f.key(rename_all), &f.ident, rng) };
                    (k, true)
                } else {
                    (
                        rng.pick(&[
                            "extra",
                            "turbo",
                            "unknown_key",
                            "Extra",
                            "x",
                            "abcéx",
                            "clé_inconnue_très_longue_à_souhait",
                            "ключ",
                            "a_very_long_unknown_key_that_goes_on_and_on_and_on",
                        ])
                        .to_string(),
                        false,
                    )
                };
                let known = fields.iter().any(|f| !f.skip && f.key(rename_all) == key);
                let is_tag = tag.map(|t| *t == key).unwrap_or(false);
                if known || is_tag || members.iter().any(|(k, _)| *k == key) {
                    continue;
                }
                let pos = rng.below(members.len() + 1);
                members.insert(pos, (key, random_doc(rng, 1)));
                if near {
                    self.counts.nearmiss += 1;
                } else {
                    self.counts.spurious += 1;
                }
            }
        }
        self.dup(members, rng);
    }
}

/// Apply a seeded permutation to the members of every object (SRC-REORDER).
pub fn reorder(doc: &mut Doc, rng: &mut Rng) {
    match doc {
        Doc::Seq(items) => {
            for it in items.iter_mut() {
                reorder(it, rng);
            }
        }
        Doc::Map(members) => {
            rng.shuffle(members);
            for (_, v) in members.iter_mut() {
                reorder(v, rng);
            }
        }
        _ => {}
    }
}

/// A document nested `depth` levels deep for the recursive program (value/next chain).
pub fn deep_chain(depth: usize, leaf: Doc) -> Doc {
    let mut cur = Doc::Map(vec![("value".to_string(), leaf)]);
    for i in 0..depth {
        cur = Doc::Map(vec![("value".to_string(), Doc::Int(i as u64)), ("next".to_string(), cur)]);
    }
    cur
}

pub fn deep_seq(depth: usize, leaf: Doc) -> Doc {
    let mut cur = leaf;
    for _ in 0..depth {
        cur = Doc::Seq(vec![cur]);
    }
    cur
}

pub fn all_paths(doc: &Doc) -> Vec<Path> {
    fn rec(d: &Doc, cur: &mut Path, out: &mut Vec<Path>) {
        out.push(cur.clone());
        match d {
            Doc::Seq(v) => {
                for (i, x) in v.iter().enumerate() {
                    cur.push(Step::Index(i));
                    rec(x, cur, out);
                    cur.pop();
                }
            }
            Doc::Map(m) => {
                for (k, x) in m {
                    cur.push(Step::Key(k.clone()));
                    rec(x, cur, out);
                    cur.pop();
                }
            }
            _ => {}
        }
    }
    let mut out = vec![];
    rec(doc, &mut vec![], &mut out);
    out
}

/// Remove every member that no field of the (derived) container at that position reads:
/// the document "without the spurious members". Used by the metamorphic rule X-spurious.
pub fn strip_unknown(cat: &Catalogue, d: &Desc, doc: &Doc) -> Doc {
    match (d, doc) {
        (Desc::Option(x), other) | (Desc::Boxed(x), other) => strip_unknown(cat, x, other),
        (Desc::Vec(x), Doc::Seq(items))
        | (Desc::HashSet(x), Doc::Seq(items))
        | (Desc::BTreeSet(x), Doc::Seq(items))
        | (Desc::Array(_, x), Doc::Seq(items)) => Doc::Seq(items.iter().map(|i| strip_unknown(cat, x, i)).collect()),
        (Desc::Tuple(xs), Doc::Seq(items)) if xs.len() == items.len() => {
            Doc::Seq(xs.iter().zip(items).map(|(x, i)| strip_unknown(cat, x, i)).collect())
        }
        (Desc::HashMap(_, x), Doc::Map(m)) | (Desc::BTreeMap(_, x), Doc::Map(m)) => {
            Doc::Map(m.iter().map(|(k, v)| (k.clone(), strip_unknown(cat, x, v))).collect())
        }
        (Desc::Named(i), _) => match (&cat.types[*i].kind, doc) {
            (TypeKind::Struct { rename_all, fields, .. }, Doc::Map(m)) => {
                Doc::Map(strip_members(cat, fields, *rename_all, None, m))
            }
            (TypeKind::Tagged { tag, rename_all, variants, .. }, Doc::Map(m)) => {
                let name = m.iter().find(|(k, _)| k == tag).and_then(|(_, v)| match v {
                    Doc::Str(s) => Some(s.clone()),
                    _ => None,
                });
                let variant = name
                    .as_ref()
                    .and_then(|n| variants.iter().find(|v| effective_key(&v.ident, &v.rename, *rename_all) == *n));
                match variant {
                    Some(v) => {
                        let empty: Vec<FieldDef> = vec![];
                        let fields = v.fields.as_ref().unwrap_or(&empty);
                        Doc::Map(strip_members(cat, fields, v.rename_all, Some(tag), m))
                    }
                    None => doc.clone(),
                }
            }
            (TypeKind::Wrapper { src, .. }, other) => strip_unknown(cat, src, other),
            _ => doc.clone(),
        },
        _ => doc.clone(),
    }
}

fn strip_members(
    cat: &Catalogue,
    fields: &[FieldDef],
    rename_all: Option<RenameAll>,
    tag: Option<&String>,
    m: &[(String, Doc)],
) -> Vec<(String, Doc)> {
    let mut out = vec![];
    let mut tag_seen = false;
    for (k, v) in m {
        if let Some(t) = tag {
            if t == k && !tag_seen {
                tag_seen = true;
                out.push((k.clone(), v.clone()));
                continue;
            }
        }
        if let Some(f) = fields.iter().find(|f| !f.skip && f.key(rename_all) == *k) {
            out.push((k.clone(), strip_unknown(cat, f.src_ty(), v)));
        }
    }
    out
}
