//! xoshiro256** seeded through splitmix64. Written here so that no dependency can change the
//! stream: one VERIF_SEED is one exactly repeatable batch.

#[derive(Clone, Debug)]
pub struct Rng {
    s: [u64; 4],
}

pub fn splitmix(x: &mut u64) -> u64 {
    *x = x.wrapping_add(0x9E37_79B9_7F4A_7C15);
    let mut z = *x;
    z = (z ^ (z >> 30)).wrapping_mul(0xBF58_476D_1CE4_E5B9);
    z = (z ^ (z >> 27)).wrapping_mul(0x94D0_49BB_1331_11EB);
    z ^ (z >> 31)
}

/// Derive an independent stream id from (seed, tag, index).
pub fn mix(seed: u64, tag: u64, index: u64) -> u64 {
    let mut x = seed ^ tag.wrapping_mul(0xD6E8_FEB8_6659_FD93);
    let a = splitmix(&mut x);
    let mut y = a ^ index.wrapping_mul(0xA076_1D64_78BD_642F);
    splitmix(&mut y)
}

impl Rng {
    pub fn new(seed: u64) -> Rng {
        let mut x = seed;
        let s = [
            splitmix(&mut x),
            splitmix(&mut x),
            splitmix(&mut x),
            splitmix(&mut x),
        ];
        Rng { s }
    }

    pub fn next(&mut self) -> u64 {
        let result = self.s[1].wrapping_mul(5).rotate_left(7).wrapping_mul(9);
        let t = self.s[1] << 17;
        self.s[2] ^= self.s[0];
        self.s[3] ^= self.s[1];
        self.s[1] ^= self.s[2];
        self.s[0] ^= self.s[3];
        self.s[2] ^= t;
        self.s[3] = self.s[3].rotate_left(45);
        result
    }

    /// uniform in 0..n (n > 0)
    pub fn below(&mut self, n: usize) -> usize {
        debug_assert!(n > 0);
        ((self.next() >> 11) % (n as u64)) as usize
    }

    pub fn range(&mut self, lo: usize, hi_incl: usize) -> usize {
        lo + self.below(hi_incl - lo + 1)
    }

    /// true with probability num/den
    pub fn chance(&mut self, num: usize, den: usize) -> bool {
        self.below(den) < num
    }

    pub fn pick<'a, T>(&mut self, xs: &'a [T]) -> &'a T {
        &xs[self.below(xs.len())]
    }

    pub fn shuffle<T>(&mut self, xs: &mut [T]) {
        for i in (1..xs.len()).rev() {
            let j = self.below(i + 1);
            xs.swap(i, j);
        }
    }

    pub fn perm(&mut self, n: usize) -> Vec<usize> {
        let mut p: Vec<usize> = (0..n).collect();
        self.shuffle(&mut p);
        p
    }
}

/// FNV-1a, used for every fingerprint and digest (stable across runs and platforms).
#[derive(Clone, Copy)]
pub struct Fnv(pub u64);

impl Default for Fnv {
    fn default() -> Self {
        Fnv(0xcbf2_9ce4_8422_2325)
    }
}

impl Fnv {
    pub fn new() -> Fnv {
        Fnv::default()
    }
    pub fn bytes(&mut self, b: &[u8]) {
        for x in b {
            self.0 ^= *x as u64;
            self.0 = self.0.wrapping_mul(0x0000_0100_0000_01B3);
        }
    }
    pub fn u64(&mut self, x: u64) {
        self.bytes(&x.to_le_bytes());
    }
    pub fn str(&mut self, s: &str) {
        self.u64(s.len() as u64);
        self.bytes(s.as_bytes());
    }
    pub fn finish(&self) -> u64 {
        // final avalanche so that short inputs spread
        let mut x = self.0;
        splitmix(&mut x)
    }
}

pub fn hash_str(s: &str) -> u64 {
    let mut f = Fnv::new();
    f.str(s);
    f.finish()
}
