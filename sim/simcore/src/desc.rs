//! The tiny type language describing catalogue programs (derive inputs and std containers).
//! A `Catalogue` is a list of named type definitions plus a list of root types ("programs").

/// An integer target type: its Rust spelling, its domain, and whether negative integers are an
/// admissible kind and zero is excluded.
#[derive(Clone, Copy, Debug, PartialEq, Eq)]
pub struct IntTy {
    pub name: &'static str,
    pub min: i128,
    pub max: i128,
    pub signed: bool,
    pub nonzero: bool,
}

pub const INT_TYPES: [IntTy; 16] = [
    IntTy { name: "i8", min: i8::MIN as i128, max: i8::MAX as i128, signed: true, nonzero: false },
    IntTy { name: "i16", min: i16::MIN as i128, max: i16::MAX as i128, signed: true, nonzero: false },
    IntTy { name: "i64", min: i64::MIN as i128, max: i64::MAX as i128, signed: true, nonzero: false },
    IntTy { name: "i128", min: i128::MIN, max: i128::MAX, signed: true, nonzero: false },
    IntTy { name: "isize", min: isize::MIN as i128, max: isize::MAX as i128, signed: true, nonzero: false },
    IntTy { name: "u16", min: 0, max: u16::MAX as i128, signed: false, nonzero: false },
    IntTy { name: "u32", min: 0, max: u32::MAX as i128, signed: false, nonzero: false },
    IntTy { name: "u128", min: 0, max: i128::MAX, signed: false, nonzero: false },
    IntTy { name: "usize", min: 0, max: usize::MAX as i128, signed: false, nonzero: false },
    IntTy { name: "std::num::NonZeroU8", min: 1, max: u8::MAX as i128, signed: false, nonzero: true },
    IntTy { name: "std::num::NonZeroU32", min: 1, max: u32::MAX as i128, signed: false, nonzero: true },
    IntTy { name: "std::num::NonZeroU64", min: 1, max: u64::MAX as i128, signed: false, nonzero: true },
    IntTy { name: "std::num::NonZeroI8", min: i8::MIN as i128, max: i8::MAX as i128, signed: true, nonzero: true },
    IntTy { name: "std::num::NonZeroI32", min: i32::MIN as i128, max: i32::MAX as i128, signed: true, nonzero: true },
    IntTy { name: "std::num::NonZeroI64", min: i64::MIN as i128, max: i64::MAX as i128, signed: true, nonzero: true },
    IntTy { name: "std::num::NonZeroUsize", min: 1, max: usize::MAX as i128, signed: false, nonzero: true },
];

#[derive(Clone, Copy, Debug, PartialEq, Eq)]
pub enum Sc {
    Bool,
    U8,
    I32,
    U64,
    Str,
    Char,
    F64,
    F32,
    Unit,
    /// any other integer width / NonZero type
    Int(IntTy),
}

impl Sc {
    pub fn rust(&self) -> &'static str {
        match self {
            Sc::Bool => "bool",
            Sc::U8 => "u8",
            Sc::I32 => "i32",
            Sc::U64 => "u64",
            Sc::Str => "String",
            Sc::Char => "char",
            Sc::F64 => "f64",
            Sc::F32 => "f32",
            Sc::Unit => "()",
            Sc::Int(t) => t.name,
        }
    }
    /// usable as element of a set (Hash + Eq + Ord)
    pub fn hashable(&self) -> bool {
        !matches!(self, Sc::F64 | Sc::F32)
    }
    pub fn int_ty(&self) -> Option<IntTy> {
        match self {
            Sc::U8 => Some(IntTy { name: "u8", min: 0, max: u8::MAX as i128, signed: false, nonzero: false }),
            Sc::I32 => Some(IntTy { name: "i32", min: i32::MIN as i128, max: i32::MAX as i128, signed: true, nonzero: false }),
            Sc::U64 => Some(IntTy { name: "u64", min: 0, max: u64::MAX as i128, signed: false, nonzero: false }),
            Sc::Int(t) => Some(*t),
            _ => None,
        }
    }
    /// does the type implement Default? (NonZero types do not)
    pub fn has_default(&self) -> bool {
        !matches!(self, Sc::Int(t) if t.nonzero)
    }
}

#[derive(Clone, Copy, Debug, PartialEq, Eq)]
pub enum KeyTy {
    Str,
    U8,
    I32,
    Char,
}

impl KeyTy {
    pub fn rust(&self) -> &'static str {
        match self {
            KeyTy::Str => "String",
            KeyTy::U8 => "u8",
            KeyTy::I32 => "i32",
            KeyTy::Char => "char",
        }
    }
    /// `FromStr` of the key type, as documented by std: None = unparsable.
    /// The result is the canonical rendering of the parsed key (two strings that parse to the
    /// same key collide in a map target).
    pub fn parse(&self, s: &str) -> Option<String> {
        match self {
            KeyTy::Str => Some(s.to_string()),
            KeyTy::U8 => s.parse::<u8>().ok().map(|x| x.to_string()),
            KeyTy::I32 => s.parse::<i32>().ok().map(|x| x.to_string()),
            KeyTy::Char => s.parse::<char>().ok().map(|x| x.to_string()),
        }
    }
}

#[derive(Clone, Debug, PartialEq)]
pub enum Desc {
    Probe(u32),
    Scalar(Sc),
    Option(Box<Desc>),
    Boxed(Box<Desc>),
    Vec(Box<Desc>),
    HashSet(Box<Desc>),
    BTreeSet(Box<Desc>),
    HashMap(KeyTy, Box<Desc>),
    BTreeMap(KeyTy, Box<Desc>),
    Array(usize, Box<Desc>),
    Tuple(Vec<Desc>),
    Cs(Sc),
    Json,
    /// `PhantomData<u8>`: accepts anything, looks at nothing
    Phantom,
    Named(usize),
}

#[derive(Clone, Copy, Debug, PartialEq, Eq)]
pub enum RenameAll {
    Camel,
    Lower,
}

#[derive(Clone, Debug, PartialEq)]
pub enum Deny {
    No,
    Default,
    Custom(u32),
    /// `deny_unknown_fields = unknown_user_cb::<N>`: the callback returns the foreign `UserErr`,
    /// which the derive hands to the container's error type in one step
    CustomUser(u32),
}

#[derive(Clone, Debug, PartialEq)]
pub enum Validate {
    No,
    /// `validate = validate_cb::<N, Self> -> UserErr`
    User(u32),
    /// `validate = validate_e_cb::<N, Self, __Deserr_E> -> __Deserr_E`
    SameErr(u32),
}

#[derive(Clone, Debug, PartialEq)]
pub enum Dflt {
    No,
    Trait,
    /// `default = Probe::dflt(token)`; only on Probe-typed fields
    Expr(u32),
}

#[derive(Clone, Debug, PartialEq)]
pub enum Conv {
    No,
    From { src: Desc, fn_id: u32, by_ref: bool },
    TryFrom { src: Desc, fn_id: u32, by_ref: bool },
}

#[derive(Clone, Debug, PartialEq)]
pub struct FieldDef {
    pub ident: String,
    pub rename: Option<String>,
    /// final type of the field (Probe(_) whenever conv / map / Expr default is used)
    pub ty: Desc,
    pub skip: bool,
    pub default: Dflt,
    pub missing_fn: Option<u32>,
    /// the `missing_field_error` function returns the foreign `UserErr` instead of the error type
    pub missing_user: bool,
    pub conv: Conv,
    pub map: Option<u32>,
    /// field-level `error = SimErrB`
    pub error_b: bool,
    /// `needs_predicate`: only adds the bound `FieldTy: Deserr<E>` to the impl
    pub needs_predicate: bool,
}

impl FieldDef {
    pub fn plain(ident: &str, ty: Desc) -> FieldDef {
        FieldDef {
            ident: ident.to_string(),
            rename: None,
            ty,
            skip: false,
            default: Dflt::No,
            missing_fn: None,
            missing_user: false,
            conv: Conv::No,
            map: None,
            error_b: false,
            needs_predicate: false,
        }
    }
    /// the type actually deserialized from the payload
    pub fn src_ty(&self) -> &Desc {
        match &self.conv {
            Conv::No => &self.ty,
            Conv::From { src, .. } | Conv::TryFrom { src, .. } => src,
        }
    }
    pub fn has_default(&self) -> bool {
        self.skip || self.default != Dflt::No
    }
}

#[derive(Clone, Debug, PartialEq)]
pub struct VariantDef {
    pub ident: String,
    pub rename: Option<String>,
    pub rename_all: Option<RenameAll>,
    /// None = unit variant
    pub fields: Option<Vec<FieldDef>>,
}

#[derive(Clone, Debug, PartialEq)]
pub enum TypeKind {
    Struct {
        rename_all: Option<RenameAll>,
        deny: Deny,
        validate: Validate,
        fields: Vec<FieldDef>,
    },
    Tagged {
        tag: String,
        rename_all: Option<RenameAll>,
        deny: Deny,
        validate: Validate,
        variants: Vec<VariantDef>,
    },
    UnitEnum {
        rename_all: Option<RenameAll>,
        validate: Validate,
        variants: Vec<VariantDef>,
    },
    /// container-level `from(src) = f` / `try_from(src) = f -> UserErr`
    Wrapper {
        src: Desc,
        fn_id: u32,
        fallible: bool,
        by_ref: bool,
        validate: Validate,
    },
}

#[derive(Clone, Debug, PartialEq)]
pub struct TypeDef {
    pub name: String,
    pub kind: TypeKind,
}

#[derive(Clone, Debug, PartialEq)]
pub struct Program {
    pub name: String,
    pub root: Desc,
    /// which part of the catalogue it came from ("hand" / "gen")
    pub origin: &'static str,
}

#[derive(Clone, Debug, Default)]
pub struct Catalogue {
    pub types: Vec<TypeDef>,
    pub programs: Vec<Program>,
}

/// Split an identifier into words the way `rename_all = camelCase` is documented to (the word
/// boundaries of convert_case 0.6 `Boundary::defaults()` that can occur in an identifier):
/// `_` separates (and is dropped); a boundary lies between lower→Upper, between a letter and a
/// digit in either direction, and before the last capital of a run of capitals that is followed
/// by a lower-case letter (`HTTPServer` = HTTP + Server). Written independently of that crate; a
/// unit test below compares the two on the identifier shapes the catalogue uses.
pub fn words(ident: &str) -> Vec<String> {
    fn up(c: char) -> bool {
        let (u, l): (String, String) = (c.to_uppercase().collect(), c.to_lowercase().collect());
        u != l && c.to_string() == u
    }
    fn lo(c: char) -> bool {
        let (u, l): (String, String) = (c.to_uppercase().collect(), c.to_lowercase().collect());
        u != l && c.to_string() == l
    }
    fn dg(c: char) -> bool {
        c.is_ascii_digit()
    }
    let cs: Vec<char> = ident.chars().collect();
    let mut out: Vec<String> = vec![];
    let mut cur = String::new();
    for i in 0..cs.len() {
        let c = cs[i];
        if c == '_' {
            out.push(std::mem::take(&mut cur));
            continue;
        }
        let mut split = false;
        if i >= 1 {
            let p = cs[i - 1];
            split |= (lo(p) && up(c)) || (up(p) && dg(c)) || (dg(p) && up(c)) || (dg(p) && lo(c)) || (lo(p) && dg(c));
            if i + 1 < cs.len() {
                split |= up(p) && up(c) && lo(cs[i + 1]);
            }
        }
        if split {
            out.push(std::mem::take(&mut cur));
        }
        cur.push(c);
    }
    out.push(cur);
    out
}

pub fn camel(ident: &str) -> String {
    let mut s = String::new();
    for (i, w) in words(ident).iter().enumerate() {
        if i == 0 {
            s.push_str(&w.to_lowercase());
        } else {
            let mut cs = w.chars();
            if let Some(f) = cs.next() {
                s.extend(f.to_uppercase());
                s.push_str(&cs.as_str().to_lowercase());
            }
        }
    }
    s
}

#[cfg(test)]
mod camel_tests {
    use convert_case::{Case, Casing};
    #[test]
    fn agrees_with_convert_case_on_catalogue_identifier_shapes() {
        let cat = crate::catalogue::catalogue(1, 40);
        let uni = crate::catalogue::uniform(1, 40);
        let mut idents: Vec<String> = vec![];
        for c in [&cat, &uni] {
            for t in &c.types {
                match &t.kind {
                    crate::desc::TypeKind::Struct { fields, .. } => idents.extend(fields.iter().map(|f| f.ident.clone())),
                    crate::desc::TypeKind::Tagged { variants, .. } => {
                        for v in variants {
                            idents.push(v.ident.clone());
                            if let Some(fs) = &v.fields {
                                idents.extend(fs.iter().map(|f| f.ident.clone()));
                            }
                        }
                    }
                    crate::desc::TypeKind::UnitEnum { variants, .. } => idents.extend(variants.iter().map(|v| v.ident.clone())),
                    _ => {}
                }
            }
        }
        for extra in ["line_2a", "x1y", "sha256sum", "ipv4_addr", "field_1", "HTTPServer", "IOError", "ABc", "aB1C", "a__b", "trailing_", "Größe_MAX", "ÉTAT_Civil"] {
            idents.push(extra.to_string());
        }
        assert!(idents.len() > 100);
        for id in idents {
            let id = id.strip_prefix("r#").unwrap_or(&id).to_string();
            assert_eq!(super::camel(&id), id.to_case(Case::Camel), "identifier {id:?}");
        }
    }
}

/// The documented precedence: rename > rename_all > identifier.
pub fn effective_key(ident: &str, rename: &Option<String>, rename_all: Option<RenameAll>) -> String {
    if let Some(r) = rename {
        return r.clone();
    }
    // `r#type` is the identifier `type`: the `r#` prefix is not part of the identifier (Rust
    // Reference, "Raw identifiers")
    let ident = ident.strip_prefix("r#").unwrap_or(ident);
    match rename_all {
        Some(RenameAll::Camel) => camel(ident),
        Some(RenameAll::Lower) => ident.to_lowercase(),
        None => ident.to_string(),
    }
}

impl FieldDef {
    pub fn key(&self, rename_all: Option<RenameAll>) -> String {
        effective_key(&self.ident, &self.rename, rename_all)
    }
}

/// effective keys of the non-skipped fields, in declaration order
pub fn accepted_keys(fields: &[FieldDef], rename_all: Option<RenameAll>) -> Vec<String> {
    fields.iter().filter(|f| !f.skip).map(|f| f.key(rename_all)).collect()
}

impl Catalogue {
    pub fn rust_ty(&self, d: &Desc) -> String {
        match d {
            Desc::Probe(id) => format!("Probe<{id}>"),
            Desc::Scalar(s) => s.rust().to_string(),
            Desc::Option(x) => format!("Option<{}>", self.rust_ty(x)),
            Desc::Boxed(x) => format!("Box<{}>", self.rust_ty(x)),
            Desc::Vec(x) => format!("Vec<{}>", self.rust_ty(x)),
            Desc::HashSet(x) => format!("HashSet<{}>", self.rust_ty(x)),
            Desc::BTreeSet(x) => format!("BTreeSet<{}>", self.rust_ty(x)),
            Desc::HashMap(k, x) => format!("HashMap<{}, {}>", k.rust(), self.rust_ty(x)),
            Desc::BTreeMap(k, x) => format!("BTreeMap<{}, {}>", k.rust(), self.rust_ty(x)),
            Desc::Array(n, x) => format!("[{}; {n}]", self.rust_ty(x)),
            Desc::Tuple(xs) => format!(
                "({})",
                xs.iter().map(|x| self.rust_ty(x)).collect::<Vec<_>>().join(", ")
            ),
            Desc::Cs(s) => format!("CS<{}>", s.rust()),
            Desc::Json => "serde_json::Value".to_string(),
            Desc::Phantom => "std::marker::PhantomData<u8>".to_string(),
            Desc::Named(i) => self.types[*i].name.clone(),
        }
    }

    /// Does this type implement `Default`? (needed for `skip` / `default`)
    pub fn has_default_impl(&self, d: &Desc) -> bool {
        match d {
            Desc::Scalar(s) => s.has_default(),
            Desc::Probe(_) | Desc::Option(_) | Desc::Vec(_) | Desc::Phantom => true,
            Desc::HashSet(_) | Desc::BTreeSet(_) | Desc::HashMap(..) | Desc::BTreeMap(..) => true,
            _ => false,
        }
    }

    /// Does this type implement Hash + Eq + Ord? (set elements)
    pub fn set_elem_ok(&self, d: &Desc) -> bool {
        match d {
            Desc::Probe(_) => true,
            Desc::Scalar(s) => s.hashable(),
            _ => false,
        }
    }

    /// maximum nesting of Named references reachable (bounded; recursion through Option<Box<Self>>
    /// is cut at the self reference)
    pub fn mentions_named(&self, d: &Desc) -> bool {
        match d {
            Desc::Named(_) => true,
            Desc::Option(x)
            | Desc::Boxed(x)
            | Desc::Vec(x)
            | Desc::HashSet(x)
            | Desc::BTreeSet(x)
            | Desc::HashMap(_, x)
            | Desc::BTreeMap(_, x)
            | Desc::Array(_, x) => self.mentions_named(x),
            Desc::Tuple(xs) => xs.iter().any(|x| self.mentions_named(x)),
            _ => false,
        }
    }
}

#[cfg(test)]
mod tests {
    use super::*;
    #[test]
    fn camel_rules() {
        assert_eq!(camel("alpha_beta"), "alphaBeta");
        assert_eq!(camel("alphaBeta"), "alphaBeta");
        assert_eq!(camel("FooBar"), "fooBar");
        assert_eq!(camel("foo"), "foo");
        assert_eq!(camel("Foo"), "foo");
    }
}

/// What a program contains, used to choose programs per property and to count reach.
#[derive(Clone, Debug, Default)]
pub struct Features {
    pub named: bool,
    pub strukt: bool,
    pub tagged: bool,
    pub unit_enum: bool,
    pub deny: bool,
    pub no_deny_fields: bool,
    pub conv: bool,
    pub try_conv: bool,
    pub validate: bool,
    pub map_fn: bool,
    pub default: bool,
    pub skip: bool,
    pub missing_fn: bool,
    pub error_b: bool,
    pub wrapper: bool,
    pub map_target: bool,
    pub array: bool,
    pub tuple: bool,
    pub set: bool,
    pub cs: bool,
    pub json: bool,
    pub option: bool,
    pub vec: bool,
    pub tag_clash: bool,
    pub key_clash: bool,
    pub rename: bool,
    pub recursive: bool,
}

impl Catalogue {
    pub fn features(&self, root: &Desc) -> Features {
        let mut f = Features::default();
        let mut seen: Vec<usize> = vec![];
        self.feat(root, &mut f, &mut seen);
        f
    }

    fn feat_fields(&self, fields: &[FieldDef], rename_all: Option<RenameAll>, tag: Option<&str>, f: &mut Features, seen: &mut Vec<usize>) {
        if rename_all.is_some() {
            f.rename = true;
        }
        let keys: Vec<String> = fields.iter().filter(|x| !x.skip).map(|x| x.key(rename_all)).collect();
        for (i, k) in keys.iter().enumerate() {
            if keys[..i].contains(k) {
                f.key_clash = true;
            }
        }
        for fd in fields {
            if fd.rename.is_some() {
                f.rename = true;
            }
            if fd.skip {
                f.skip = true;
            }
            if fd.default != Dflt::No {
                f.default = true;
            }
            if fd.missing_fn.is_some() {
                f.missing_fn = true;
            }
            if fd.map.is_some() {
                f.map_fn = true;
            }
            if fd.error_b {
                f.error_b = true;
            }
            match &fd.conv {
                Conv::No => {}
                Conv::From { .. } => f.conv = true,
                Conv::TryFrom { .. } => {
                    f.conv = true;
                    f.try_conv = true;
                }
            }
            if let Some(t) = tag {
                if !fd.skip && fd.key(rename_all) == t {
                    f.tag_clash = true;
                }
            }
            if !fd.skip {
                self.feat(fd.src_ty(), f, seen);
            }
        }
    }

    fn feat(&self, d: &Desc, f: &mut Features, seen: &mut Vec<usize>) {
        match d {
            Desc::Probe(_) | Desc::Scalar(_) => {}
            Desc::Option(x) => {
                f.option = true;
                self.feat(x, f, seen)
            }
            Desc::Boxed(x) => self.feat(x, f, seen),
            Desc::Vec(x) => {
                f.vec = true;
                self.feat(x, f, seen)
            }
            Desc::HashSet(x) | Desc::BTreeSet(x) => {
                f.set = true;
                self.feat(x, f, seen)
            }
            Desc::HashMap(_, x) | Desc::BTreeMap(_, x) => {
                f.map_target = true;
                self.feat(x, f, seen)
            }
            Desc::Array(_, x) => {
                f.array = true;
                self.feat(x, f, seen)
            }
            Desc::Tuple(xs) => {
                f.tuple = true;
                for x in xs {
                    self.feat(x, f, seen);
                }
            }
            Desc::Cs(_) => f.cs = true,
            Desc::Json => f.json = true,
            Desc::Phantom => {}
            Desc::Named(i) => {
                f.named = true;
                if seen.contains(i) {
                    f.recursive = true;
                    return;
                }
                seen.push(*i);
                match &self.types[*i].kind {
                    TypeKind::Struct { rename_all, deny, validate, fields } => {
                        f.strukt = true;
                        if *deny != Deny::No {
                            f.deny = true;
                        } else {
                            f.no_deny_fields = true;
                        }
                        if *validate != Validate::No {
                            f.validate = true;
                        }
                        self.feat_fields(fields, *rename_all, None, f, seen);
                    }
                    TypeKind::Tagged { tag, rename_all, deny, validate, variants } => {
                        f.tagged = true;
                        if rename_all.is_some() {
                            f.rename = true;
                        }
                        if *validate != Validate::No {
                            f.validate = true;
                        }
                        for v in variants {
                            if v.rename.is_some() {
                                f.rename = true;
                            }
                            if let Some(fields) = &v.fields {
                                if *deny != Deny::No {
                                    f.deny = true;
                                } else {
                                    f.no_deny_fields = true;
                                }
                                self.feat_fields(fields, v.rename_all, Some(tag), f, seen);
                            }
                        }
                    }
                    TypeKind::UnitEnum { rename_all, validate, variants } => {
                        f.unit_enum = true;
                        if rename_all.is_some() || variants.iter().any(|v| v.rename.is_some()) {
                            f.rename = true;
                        }
                        if *validate != Validate::No {
                            f.validate = true;
                        }
                    }
                    TypeKind::Wrapper { src, fallible, validate, .. } => {
                        f.wrapper = true;
                        f.conv = true;
                        if *fallible {
                            f.try_conv = true;
                        }
                        if *validate != Validate::No {
                            f.validate = true;
                        }
                        self.feat(src, f, seen);
                    }
                }
                seen.pop();
            }
        }
    }
}
