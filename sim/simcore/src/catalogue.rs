//! The catalogue of programs: a hand-specified part mirroring the shapes used in deserr's tests
//! and book plus every std container, and a seeded random generator of derive inputs.

use crate::desc::*;
use crate::rng::Rng;

pub struct Builder {
    pub cat: Catalogue,
    next_fn: u32,
    next_probe: u32,
    next_tok: u32,
    origin: &'static str,
}

fn bx(d: Desc) -> Box<Desc> {
    Box::new(d)
}

impl Builder {
    pub fn new() -> Builder {
        Builder { cat: Catalogue::default(), next_fn: 100, next_probe: 0, next_tok: 1000, origin: "hand" }
    }
    pub fn p(&mut self) -> Desc {
        self.next_probe += 1;
        Desc::Probe(self.next_probe)
    }
    pub fn fid(&mut self) -> u32 {
        self.next_fn += 1;
        self.next_fn
    }
    pub fn tok(&mut self) -> u32 {
        self.next_tok += 1;
        self.next_tok
    }
    pub fn add_type(&mut self, name: &str, kind: TypeKind) -> Desc {
        self.cat.types.push(TypeDef { name: name.to_string(), kind });
        Desc::Named(self.cat.types.len() - 1)
    }
    pub fn strukt(
        &mut self,
        name: &str,
        rename_all: Option<RenameAll>,
        deny: Deny,
        validate: Validate,
        fields: Vec<FieldDef>,
    ) -> Desc {
        self.add_type(name, TypeKind::Struct { rename_all, deny, validate, fields })
    }
    pub fn program(&mut self, name: &str, root: Desc) {
        self.cat.programs.push(Program { name: name.to_string(), root, origin: self.origin });
    }
    fn f(&mut self, ident: &str) -> FieldDef {
        let p = self.p();
        FieldDef::plain(ident, p)
    }
}

fn sc(s: Sc) -> Desc {
    Desc::Scalar(s)
}

/// The hand-specified part. Names start with `H`.
pub fn hand(b: &mut Builder) {
    b.origin = "hand";
    // --- leaves -------------------------------------------------------------------------------
    let p = b.p();
    b.program("probe", p);
    for (n, s) in [
        ("bool", Sc::Bool),
        ("u8", Sc::U8),
        ("i32", Sc::I32),
        ("u64", Sc::U64),
        ("string", Sc::Str),
        ("char", Sc::Char),
        ("f64", Sc::F64),
        ("unit", Sc::Unit),
    ] {
        b.program(n, sc(s));
    }
    b.program("f32", sc(Sc::F32));
    for t in INT_TYPES.iter() {
        let n = t.name.rsplit("::").next().unwrap().to_lowercase();
        b.program(&n, sc(Sc::Int(*t)));
    }
    b.program("vec_nonzero_i8", Desc::Vec(bx(sc(Sc::Int(INT_TYPES[12])))));
    b.program("tuple_ints", Desc::Tuple(vec![sc(Sc::Int(INT_TYPES[0])), sc(Sc::Int(INT_TYPES[6])), sc(Sc::Int(INT_TYPES[11]))]));
    b.program("hashset_i64", Desc::HashSet(bx(sc(Sc::Int(INT_TYPES[2])))));
    // --- std containers -----------------------------------------------------------------------
    let p = b.p();
    b.program("vec_probe", Desc::Vec(bx(p)));
    b.program("vec_u8", Desc::Vec(bx(sc(Sc::U8))));
    let p = b.p();
    b.program("vec_vec_probe", Desc::Vec(bx(Desc::Vec(bx(p)))));
    let p = b.p();
    b.program("option_probe", Desc::Option(bx(p)));
    b.program("option_string", Desc::Option(bx(sc(Sc::Str))));
    b.program("vec_option_string", Desc::Vec(bx(Desc::Option(bx(sc(Sc::Str))))));
    b.program("option_char", Desc::Option(bx(sc(Sc::Char))));
    b.program(
        "option_vec_option_u8",
        Desc::Option(bx(Desc::Vec(bx(Desc::Option(bx(sc(Sc::U8))))))),
    );
    let p = b.p();
    b.program("box_vec_box_probe", Desc::Boxed(bx(Desc::Vec(bx(Desc::Boxed(bx(p)))))));
    b.program("hashset_u8", Desc::HashSet(bx(sc(Sc::U8))));
    b.program("btreeset_string", Desc::BTreeSet(bx(sc(Sc::Str))));
    let p = b.p();
    b.program("hashset_probe", Desc::HashSet(bx(p)));
    let p = b.p();
    b.program("btreeset_probe", Desc::BTreeSet(bx(p)));
    let p = b.p();
    b.program("hashmap_string_probe", Desc::HashMap(KeyTy::Str, bx(p)));
    let p = b.p();
    b.program("btreemap_string_probe", Desc::BTreeMap(KeyTy::Str, bx(p)));
    let p = b.p();
    b.program("hashmap_u8_probe", Desc::HashMap(KeyTy::U8, bx(p)));
    b.program("btreemap_i32_u8", Desc::BTreeMap(KeyTy::I32, bx(sc(Sc::U8))));
    let p = b.p();
    b.program("btreemap_char_vec_probe", Desc::BTreeMap(KeyTy::Char, bx(Desc::Vec(bx(p)))));
    let p = b.p();
    b.program(
        "hashmap_hashmap_probe",
        Desc::HashMap(KeyTy::Str, bx(Desc::HashMap(KeyTy::Str, bx(p)))),
    );
    let p = b.p();
    b.program("vec_btreemap_u8_probe", Desc::Vec(bx(Desc::BTreeMap(KeyTy::U8, bx(p)))));
    let p = b.p();
    b.program("array0_probe", Desc::Array(0, bx(p)));
    let p = b.p();
    b.program("array1_probe", Desc::Array(1, bx(p)));
    let p = b.p();
    b.program("array3_probe", Desc::Array(3, bx(p)));
    b.program("array2_u8", Desc::Array(2, bx(sc(Sc::U8))));
    let p = b.p();
    b.program("array2_array2_probe", Desc::Array(2, bx(Desc::Array(2, bx(p)))));
    let p = b.p();
    b.program("vec_array4_probe", Desc::Vec(bx(Desc::Array(4, bx(p)))));
    let (p1, p2) = (b.p(), b.p());
    b.program("tuple2_probe", Desc::Tuple(vec![p1, p2]));
    let p = b.p();
    b.program("tuple3_mixed", Desc::Tuple(vec![sc(Sc::U8), sc(Sc::Str), p]));
    // the last member accepting null does not make it optional; nor does Option look inside
    let p = b.p();
    b.program("tuple2_option_last", Desc::Tuple(vec![sc(Sc::U8), Desc::Option(bx(sc(Sc::U8)))]));
    b.program("tuple3_option_last", Desc::Tuple(vec![sc(Sc::U8), sc(Sc::Bool), Desc::Option(bx(p))]));
    b.program("vec_tuple2_json_last", Desc::Vec(bx(Desc::Tuple(vec![sc(Sc::Str), Desc::Json]))));
    // zero-sized element types
    b.program("vec_unit", Desc::Vec(bx(sc(Sc::Unit))));
    b.program("hashset_unit", Desc::HashSet(bx(sc(Sc::Unit))));
    b.program("hashmap_str_unit", Desc::HashMap(KeyTy::Str, bx(sc(Sc::Unit))));
    b.program("vec_phantom", Desc::Vec(bx(Desc::Phantom)));
    b.program("array2_unit", Desc::Array(2, bx(sc(Sc::Unit))));
    b.program("option_option_u8", Desc::Option(bx(Desc::Option(bx(sc(Sc::U8))))));
    b.program("vec_option_option_char", Desc::Vec(bx(Desc::Option(bx(Desc::Option(bx(sc(Sc::Char))))))));
    b.program("option_json", Desc::Option(bx(Desc::Json)));
    b.program("vec_option_unit", Desc::Vec(bx(Desc::Option(bx(sc(Sc::Unit))))));
    b.program("hashmap_option_json", Desc::HashMap(KeyTy::Str, bx(Desc::Option(bx(Desc::Json)))));
    let (p1, p2, p3) = (b.p(), b.p(), b.p());
    b.program(
        "tuple2_nested",
        Desc::Tuple(vec![Desc::Tuple(vec![p1, p2]), Desc::Vec(bx(p3))]),
    );
    let (p1, p2, p3) = (b.p(), b.p(), b.p());
    b.program(
        "tuple3_containers",
        Desc::Tuple(vec![Desc::Option(bx(p1)), Desc::Array(2, bx(p2)), Desc::HashMap(KeyTy::Str, bx(p3))]),
    );
    b.program("cs_u8", Desc::Cs(Sc::U8));
    b.program("cs_string", Desc::Cs(Sc::Str));
    b.program("vec_cs_i32", Desc::Vec(bx(Desc::Cs(Sc::I32))));
    b.program("phantom", Desc::Phantom);
    b.program("vec_phantom", Desc::Vec(bx(Desc::Phantom)));
    b.program("json", Desc::Json);
    b.program("vec_json", Desc::Vec(bx(Desc::Json)));
    b.program("btreemap_string_json", Desc::BTreeMap(KeyTy::Str, bx(Desc::Json)));

    // --- derived structs ----------------------------------------------------------------------
    // plain, as in tests/test_derive.rs
    let fields = vec![b.f("doggo"), b.f("catto"), FieldDef::plain("age", sc(Sc::U8))];
    let s_plain = b.strukt("HPlain", None, Deny::No, Validate::No, fields);
    b.program("struct_plain", s_plain.clone());
    b.program("vec_struct_plain", Desc::Vec(bx(s_plain.clone())));
    b.program("hashmap_struct_plain", Desc::HashMap(KeyTy::Str, bx(s_plain.clone())));

    // empty struct
    let s_empty = b.strukt("HEmpty", None, Deny::No, Validate::No, vec![]);
    b.program("struct_empty", s_empty.clone());
    b.program("vec_struct_empty", Desc::Vec(bx(s_empty)));
    let s_empty_deny = b.strukt("HEmptyDeny", None, Deny::Default, Validate::No, vec![]);
    b.program("struct_empty_deny", s_empty_deny);

    // rename / rename_all
    let mut f1 = b.f("first_name");
    f1.rename = Some("given".to_string());
    let fields = vec![f1, b.f("last_name"), b.f("age"), b.f("zipCode")];
    let s = b.strukt("HCamel", Some(RenameAll::Camel), Deny::No, Validate::No, fields);
    b.program("struct_camel", s);
    let mut f1 = b.f("First_name");
    f1.rename = Some("GIVEN".to_string());
    let fields = vec![f1, b.f("lastName"), b.f("AGE")];
    let s = b.strukt("HLower", Some(RenameAll::Lower), Deny::Default, Validate::No, fields);
    b.program("struct_lower_deny", s);

    // identifiers outside ASCII: `lowercase` is Unicode lowercase (ÉTAT -> état), exact match
    let fields = vec![b.f("ÉTAT_Civil"), b.f("Größe_MAX"), b.f("ÇA"), b.f("plain")];
    let s = b.strukt("HUnicodeLower", Some(RenameAll::Lower), Deny::Default, Validate::No, fields);
    b.program("struct_unicode_lower", s);
    let fields = vec![b.f("Élan"), b.f("ÑANDU")];
    let s = b.strukt("HUnicodePlain", None, Deny::Default, Validate::No, fields);
    b.program("struct_unicode_plain", s);
    let variants = vec![
        VariantDef { ident: "École".into(), rename: None, rename_all: None, fields: None },
        VariantDef { ident: "ÎleDeFrance".into(), rename: None, rename_all: Some(RenameAll::Lower), fields: Some(vec![b.f("CÔTÉ"), b.f("nord")]) },
    ];
    let e = b.add_type(
        "HUnicodeEnum",
        TypeKind::Tagged { tag: "clé".into(), rename_all: Some(RenameAll::Lower), deny: Deny::No, validate: Validate::No, variants },
    );
    b.program("enum_unicode_lower", e);

    // renames whose literal needs escape sequences (the key is the string the literal denotes)
    let mut q = b.f("quoted");
    q.rename = Some("quo\"te".to_string());
    let mut bs = b.f("backslashed");
    bs.rename = Some("back\\slash".to_string());
    let mut tb = b.f("tabbed");
    tb.rename = Some("tab\there".to_string());
    let mut cm = b.f("custom_missing_renamed");
    cm.rename = Some("caf\u{e9} cr\u{e8}me".to_string());
    cm.missing_fn = Some(b.fid());
    // blanks inside the quotes are part of the key
    let mut pad = b.f("padded");
    pad.rename = Some(" id ".to_string());
    let mut tail = b.f("tailed");
    tail.rename = Some("name\t".to_string());
    let fields = vec![q, bs, tb, cm, pad, tail, b.f("plain"), b.f("id")];
    let s = b.strukt("HEscapedRename", Some(RenameAll::Camel), Deny::Default, Validate::No, fields);
    b.program("struct_escaped_rename", s.clone());
    b.program("vec_struct_escaped_rename", Desc::Vec(bx(s)));

    // variants carrying several attributes of their own (laid out over one or several lines)
    let variants = vec![
        VariantDef { ident: "Circle".into(), rename: Some("shape".into()), rename_all: Some(RenameAll::Camel), fields: Some(vec![b.f("outer_radius"), b.f("line_width")]) },
        VariantDef { ident: "Square".into(), rename: Some("box".into()), rename_all: Some(RenameAll::Camel), fields: Some(vec![b.f("side_length")]) },
        VariantDef { ident: "Label".into(), rename: Some("TEXT".into()), rename_all: Some(RenameAll::Lower), fields: Some(vec![b.f("Font_Size"), b.f("content")]) },
        VariantDef { ident: "Arrow".into(), rename: Some("arrow_to".into()), rename_all: Some(RenameAll::Camel), fields: Some(vec![b.f("head_size"), b.f("tail_size")]) },
        VariantDef { ident: "Plain".into(), rename: None, rename_all: None, fields: Some(vec![b.f("head_size")]) },
    ];
    let e = b.add_type(
        "HVariantAttrs",
        TypeKind::Tagged { tag: "kind".into(), rename_all: None, deny: Deny::Default, validate: Validate::No, variants },
    );
    b.program("enum_variant_attrs", e.clone());
    b.program("vec_enum_variant_attrs", Desc::Vec(bx(e)));

    // raw-identifier variants under rename_all; a unit variant carrying a rename_all of its own
    // (which renames its fields, of which it has none, and nothing else); numeric names
    let variants = vec![
        VariantDef { ident: "r#Move".into(), rename: None, rename_all: None, fields: None },
        VariantDef { ident: "r#Type".into(), rename: None, rename_all: None, fields: None },
        VariantDef { ident: "KeepAlive".into(), rename: None, rename_all: Some(RenameAll::Camel), fields: None },
        VariantDef { ident: "One".into(), rename: Some("1".into()), rename_all: None, fields: None },
        VariantDef { ident: "Minus".into(), rename: Some("-3".into()), rename_all: None, fields: None },
    ];
    let e = b.add_type("HUnitRawLower", TypeKind::UnitEnum { rename_all: Some(RenameAll::Lower), validate: Validate::No, variants: variants.clone() });
    b.program("enum_unit_raw_lower", e.clone());
    b.program("vec_enum_unit_raw_lower", Desc::Vec(bx(e)));
    let tagged: Vec<VariantDef> = variants
        .iter()
        .map(|v| VariantDef { ident: v.ident.clone(), rename: v.rename.clone(), rename_all: v.rename_all, fields: if v.ident == "r#Type" { Some(vec![b.f("inner_value")]) } else { None } })
        .collect();
    let e = b.add_type(
        "HTagRenamed",
        TypeKind::Tagged { tag: "Shape_Kind".into(), rename_all: Some(RenameAll::Camel), deny: Deny::Default, validate: Validate::No, variants: tagged },
    );
    b.program("enum_tag_renamed", e);

    // a tree: recursion through Vec<Self>
    let idx = b.cat.types.len();
    let kids = FieldDef::plain("kids", Desc::Vec(bx(Desc::Named(idx))));
    let fields = vec![b.f("value"), kids];
    let s = b.strukt("HTree", None, Deny::No, Validate::No, fields);
    b.program("struct_tree", s);

    // variants that answer to the spelling of a number (versioned payloads): the tag is still a string
    let variants = vec![
        VariantDef { ident: "V1".into(), rename: Some("1".into()), rename_all: None, fields: Some(vec![b.f("name")]) },
        VariantDef { ident: "V2".into(), rename: Some("2".into()), rename_all: None, fields: Some(vec![b.f("name"), b.f("size")]) },
        VariantDef { ident: "V10".into(), rename: Some("10".into()), rename_all: None, fields: None },
    ];
    let e = b.add_type(
        "HVersioned",
        TypeKind::Tagged { tag: "version".into(), rename_all: None, deny: Deny::No, validate: Validate::No, variants },
    );
    b.program("enum_versioned", e.clone());
    b.program("vec_enum_versioned", Desc::Vec(bx(e)));

    // leading underscores are part of the key wherever camelCase is not involved
    let mut oo = FieldDef::plain("_maybe_twice", Desc::Option(bx(Desc::Option(bx(sc(Sc::U8))))));
    oo.default = Dflt::No;
    let fields = vec![b.f("_reserved"), b.f("__hidden"), b.f("_Tag"), b.f("reserved"), oo];
    let s = b.strukt("HUnderscore", None, Deny::Default, Validate::No, fields.clone());
    b.program("struct_underscore", s.clone());
    b.program("vec_struct_underscore", Desc::Vec(bx(s)));
    let fields: Vec<FieldDef> = fields.into_iter().filter(|f| f.ident != "_Tag").collect();
    let s = b.strukt("HUnderscoreLower", Some(RenameAll::Lower), Deny::No, Validate::No, fields);
    b.program("struct_underscore_lower", s);

    // identifiers that dodge a keyword with a trailing underscore are keys like any other
    let fields = vec![b.f("type_"), b.f("ref_"), b.f("in_"), b.f("size_"), b.f("match_")];
    let s = b.strukt("HKeywordish", None, Deny::Default, Validate::No, fields.clone());
    b.program("struct_keywordish", s.clone());
    b.program("vec_struct_keywordish", Desc::Vec(bx(s)));
    let s = b.strukt("HKeywordishLower", Some(RenameAll::Lower), Deny::No, Validate::No, fields);
    b.program("struct_keywordish_lower", s);
    let variants = vec![
        VariantDef { ident: "Type_".into(), rename: None, rename_all: None, fields: Some(vec![b.f("as_"), b.f("plain")]) },
        VariantDef { ident: "Loop_".into(), rename: None, rename_all: None, fields: None },
    ];
    let e = b.add_type(
        "HKeywordishEnum",
        TypeKind::Tagged { tag: "kind".into(), rename_all: None, deny: Deny::Default, validate: Validate::No, variants },
    );
    b.program("enum_keywordish", e);

    // raw identifiers: the field `r#type` is read from the key "type"
    let mut dflt = b.f("r#loop");
    dflt.default = Dflt::Trait;
    let fields = vec![b.f("r#type"), dflt, b.f("plain")];
    let s = b.strukt("HRawIdent", None, Deny::Default, Validate::No, fields);
    b.program("struct_raw_ident", s.clone());
    b.program("vec_struct_raw_ident", Desc::Vec(bx(s)));
    let fields = vec![b.f("r#type"), b.f("r#my_loop"), b.f("other_field")];
    let s = b.strukt("HRawIdentCamel", Some(RenameAll::Camel), Deny::No, Validate::No, fields);
    b.program("struct_raw_ident_camel", s);
    let variants = vec![
        VariantDef { ident: "r#Move".into(), rename: None, rename_all: None, fields: Some(vec![b.f("r#where"), b.f("speed")]) },
        VariantDef { ident: "Stay".into(), rename: None, rename_all: None, fields: None },
    ];
    let e = b.add_type(
        "HRawIdentEnum",
        TypeKind::Tagged { tag: "do".into(), rename_all: None, deny: Deny::No, validate: Validate::No, variants },
    );
    b.program("enum_raw_ident", e);

    // the empty string is a legal key: `rename = ""`
    let mut e = b.f("empty_named");
    e.rename = Some(String::new());
    let mut e2 = b.f("empty_named_default");
    e2.default = Dflt::Trait;
    let fields = vec![e, b.f("plain"), e2];
    let s = b.strukt("HEmptyKey", None, Deny::Default, Validate::No, fields);
    b.program("struct_empty_key", s.clone());
    b.program("vec_struct_empty_key", Desc::Vec(bx(s)));
    // two fields resolving to the same key: the first one declared reads the entry, the other
    // one never sees it (it has a default here); every other field is unaffected
    let mut legacy = b.f("legacy");
    legacy.rename = Some("userId".to_string());
    legacy.default = Dflt::Trait;
    let fields = vec![b.f("user_id"), legacy, b.f("display_name"), b.f("home_page")];
    let s = b.strukt("HKeyClash", Some(RenameAll::Camel), Deny::No, Validate::No, fields);
    b.program("struct_key_clash", s.clone());
    b.program("vec_struct_key_clash", Desc::Vec(bx(s)));
    let mut legacy = b.f("Legacy");
    legacy.rename = Some("name".to_string());
    legacy.default = Dflt::Expr(b.tok());
    let variants = vec![
        VariantDef { ident: "Plain".into(), rename: None, rename_all: None, fields: Some(vec![b.f("name"), b.f("other")]) },
        VariantDef {
            ident: "Clash".into(),
            rename: None,
            rename_all: Some(RenameAll::Lower),
            fields: Some(vec![b.f("Name"), legacy, b.f("New_Name"), b.f("last")]),
        },
    ];
    let e = b.add_type(
        "HVariantKeyClash",
        TypeKind::Tagged { tag: "t".into(), rename_all: None, deny: Deny::Default, validate: Validate::No, variants },
    );
    b.program("enum_variant_key_clash", e);

    // deny_unknown_fields default and custom, with skipped / renamed fields
    let mut sk = b.f("hidden");
    sk.skip = true;
    let mut rn = b.f("word");
    rn.rename = Some("mot".to_string());
    let fields = vec![sk, rn, b.f("other")];
    let s = b.strukt("HDeny", None, Deny::Default, Validate::No, fields);
    b.program("struct_deny", s.clone());
    b.program("vec_struct_deny", Desc::Vec(bx(s)));
    let id = b.fid();
    let mut sk = b.f("hidden");
    sk.skip = true;
    let fields = vec![b.f("word"), sk, b.f("second_word")];
    let s = b.strukt("HDenyCustom", Some(RenameAll::Camel), Deny::Custom(id), Validate::No, fields);
    b.program("struct_deny_custom", s);

    // a wide container (more than 20 fields) with skipped fields in the middle of the declaration
    let mut wide: Vec<FieldDef> = vec![];
    for i in 0..24 {
        let mut f = b.f(&format!("w{}{}", (b'a' + (i / 6) as u8) as char, ["one", "two", "three", "four", "five", "six"][i % 6]));
        if i == 3 || i == 11 || i == 12 {
            f.skip = true;
        }
        if i == 7 {
            f.default = Dflt::Trait;
        }
        wide.push(f);
    }
    let s = b.strukt("HWide", None, Deny::Default, Validate::No, wide.clone());
    b.program("struct_wide_deny", s);
    let id = b.fid();
    wide.reverse();
    let s = b.strukt("HWideCustom", Some(RenameAll::Camel), Deny::CustomUser(id), Validate::No, wide);
    b.program("struct_wide_deny_custom", s);

    // defaults, skip, missing_field_error, Option
    let mut d1 = b.f("with_default");
    d1.default = Dflt::Trait;
    let mut d2 = b.f("with_expr");
    d2.default = Dflt::Expr(b.tok());
    let mut d3 = b.f("skipped");
    d3.skip = true;
    let mut d4 = b.f("skipped_expr");
    d4.skip = true;
    d4.default = Dflt::Expr(b.tok());
    let mut d5 = b.f("custom_missing");
    d5.missing_fn = Some(b.fid());
    let mut d5u = b.f("custom_missing_user");
    d5u.missing_fn = Some(b.fid());
    d5u.missing_user = true;
    let mut d6 = b.f("default_and_custom_missing");
    d6.default = Dflt::Expr(b.tok());
    d6.missing_fn = Some(b.fid());
    d6.map = Some(b.fid());
    let mut d7 = b.f("raw_looking");
    d7.rename = Some("r#type".to_string());
    let opt = FieldDef::plain("maybe", Desc::Option(bx(b.p())));
    let mut optd = FieldDef::plain("maybe_default", Desc::Option(bx(sc(Sc::U8))));
    optd.default = Dflt::Trait;
    let mut vecd = FieldDef::plain("list_default", Desc::Vec(bx(b.p())));
    vecd.default = Dflt::Trait;
    let req = b.f("required");
    let s = b.strukt(
        "HDefaults",
        None,
        Deny::No,
        Validate::No,
        vec![d3, d1, req, d2, d4, d5, d5u, opt, optd, vecd, d6, d7],
    );
    b.program("struct_defaults", s.clone());
    b.program("vec_struct_defaults", Desc::Vec(bx(s)));

    // from / try_from / map at field level, by value and by reference
    let mut c1 = b.f("conv_from");
    c1.conv = Conv::From { src: sc(Sc::Str), fn_id: b.fid(), by_ref: false };
    let mut c2 = b.f("conv_from_ref");
    c2.conv = Conv::From { src: Desc::Vec(bx(b.p())), fn_id: b.fid(), by_ref: true };
    let mut c3 = b.f("conv_try");
    c3.conv = Conv::TryFrom { src: b.p(), fn_id: b.fid(), by_ref: false };
    let mut c4 = b.f("conv_try_ref");
    c4.conv = Conv::TryFrom { src: Desc::Option(bx(b.p())), fn_id: b.fid(), by_ref: true };
    let mut c5 = b.f("mapped");
    c5.map = Some(b.fid());
    let mut c6 = b.f("mapped_default");
    c6.map = Some(b.fid());
    c6.default = Dflt::Expr(b.tok());
    let mut c7 = b.f("try_default_map");
    c7.conv = Conv::TryFrom { src: Desc::Tuple(vec![b.p(), sc(Sc::U8)]), fn_id: b.fid(), by_ref: false };
    c7.default = Dflt::Trait;
    c7.map = Some(b.fid());
    let mut c9 = b.f("conv_from_json");
    c9.conv = Conv::From { src: Desc::Json, fn_id: b.fid(), by_ref: false };
    let mut c10 = b.f("conv_try_json_ref");
    c10.conv = Conv::TryFrom { src: Desc::Vec(bx(Desc::Json)), fn_id: b.fid(), by_ref: true };
    c10.default = Dflt::Trait;
    let mut c11 = b.f("conv_from_default");
    c11.conv = Conv::From { src: sc(Sc::Str), fn_id: b.fid(), by_ref: false };
    c11.default = Dflt::Trait;
    let mut c12 = b.f("conv_from_option");
    c12.conv = Conv::From { src: Desc::Option(bx(sc(Sc::U8))), fn_id: b.fid(), by_ref: false };
    let mut c13 = b.f("conv_from_option_ref");
    c13.conv = Conv::From { src: Desc::Option(bx(sc(Sc::Str))), fn_id: b.fid(), by_ref: true };
    let marker = FieldDef::plain("marker", Desc::Phantom);
    let mut c8 = b.f("mapped_skipped");
    c8.skip = true;
    c8.map = Some(b.fid());
    let s = b.strukt("HConv", None, Deny::No, Validate::No, vec![c1, c2, c3, c4, c5, c6, c7, c8, c9, c10, c11, c12, c13, marker]);
    b.program("struct_conv", s.clone());
    b.program("vec_struct_conv", Desc::Vec(bx(s)));

    // validate (both flavours) and container-level deny
    let v = b.fid();
    let fields = vec![FieldDef::plain("start", sc(Sc::U64)), FieldDef::plain("end", sc(Sc::U64)), b.f("extra")];
    let s = b.strukt("HRange", None, Deny::No, Validate::SameErr(v), fields);
    b.program("struct_validate_e", s.clone());
    b.program("vec_struct_validate_e", Desc::Vec(bx(s)));
    let v = b.fid();
    let mut d = b.f("opt");
    d.default = Dflt::Trait;
    let mut m = b.f("mapped");
    m.map = Some(b.fid());
    let fields = vec![b.f("a"), d, m];
    let s_val = b.strukt("HValidated", None, Deny::Default, Validate::User(v), fields);
    b.program("struct_validate_user", s_val.clone());
    b.program("btreemap_struct_validate_user", Desc::BTreeMap(KeyTy::Str, bx(s_val.clone())));

    // field-level error type
    let mut e1 = b.f("with_b");
    e1.error_b = true;
    let mut e2 = FieldDef::plain("nested_b", s_plain.clone());
    e2.error_b = true;
    e2.needs_predicate = true;
    let mut e3 = b.f("try_b");
    e3.error_b = true;
    e3.conv = Conv::TryFrom { src: Desc::Vec(bx(b.p())), fn_id: b.fid(), by_ref: false };
    e3.needs_predicate = true;
    let mut e4 = FieldDef::plain("list_b", Desc::Vec(bx(sc(Sc::U8))));
    e4.error_b = true;
    let mut e0 = b.f("plain");
    e0.needs_predicate = true;
    let s = b.strukt("HFieldErr", None, Deny::No, Validate::No, vec![e0, e1, e2, e3, e4]);
    b.program("struct_field_error", s.clone());
    b.program("vec_struct_field_error", Desc::Vec(bx(s)));

    // nesting: struct in struct in containers, struct with a map field
    let inner_fields = vec![b.f("x"), FieldDef::plain("y", Desc::Vec(bx(b.p())))];
    let inner = b.strukt("HInner", None, Deny::Default, Validate::No, inner_fields);
    let mut o = FieldDef::plain("inner_opt", Desc::Option(bx(inner.clone())));
    o.default = Dflt::Trait;
    let fields = vec![
        FieldDef::plain("inner", inner.clone()),
        FieldDef::plain("inners", Desc::Vec(bx(inner.clone()))),
        o,
        FieldDef::plain("by_name", Desc::HashMap(KeyTy::Str, bx(b.p()))),
        FieldDef::plain("pair", Desc::Tuple(vec![b.p(), inner.clone()])),
        FieldDef::plain("triple", Desc::Array(3, bx(sc(Sc::U8)))),
        FieldDef::plain("raw", Desc::Json),
    ];
    let s = b.strukt("HOuter", None, Deny::No, Validate::No, fields);
    b.program("struct_outer", s.clone());
    b.program("vec_struct_outer", Desc::Vec(bx(s)));

    // recursion through Option<Box<Self>>
    let idx = b.cat.types.len();
    let mut next = FieldDef::plain("next", Desc::Option(bx(Desc::Boxed(bx(Desc::Named(idx))))));
    next.default = Dflt::Trait;
    let fields = vec![b.f("value"), next];
    let s = b.strukt("HNode", None, Deny::No, Validate::No, fields);
    b.program("struct_recursive", s);

    // --- enums --------------------------------------------------------------------------------
    let variants = vec![
        VariantDef { ident: "Alpha".into(), rename: None, rename_all: None, fields: None },
        VariantDef { ident: "BetaGamma".into(), rename: None, rename_all: None, fields: None },
        VariantDef { ident: "Delta".into(), rename: Some("DELTA".into()), rename_all: None, fields: None },
    ];
    let e = b.add_type("HUnit", TypeKind::UnitEnum { rename_all: None, validate: Validate::No, variants: variants.clone() });
    b.program("enum_unit", e.clone());
    b.program("vec_enum_unit", Desc::Vec(bx(e)));
    let e = b.add_type("HUnitCamel", TypeKind::UnitEnum { rename_all: Some(RenameAll::Camel), validate: Validate::No, variants: variants.clone() });
    b.program("enum_unit_camel", e);
    let v = b.fid();
    let e = b.add_type("HUnitLower", TypeKind::UnitEnum { rename_all: Some(RenameAll::Lower), validate: Validate::User(v), variants });
    b.program("enum_unit_lower_validate", e.clone());
    b.program("hashmap_enum_unit_lower", Desc::HashMap(KeyTy::Str, bx(e)));

    // every accepted name lower-case (matching stays exact and case-sensitive), and identifiers
    // with acronyms / digits under camelCase
    let variants = vec![
        VariantDef { ident: "Asc".into(), rename: None, rename_all: None, fields: None },
        VariantDef { ident: "Desc".into(), rename: None, rename_all: None, fields: None },
        VariantDef { ident: "RandomOrder".into(), rename: None, rename_all: None, fields: None },
        VariantDef { ident: "Plain".into(), rename: Some("plain_2".into()), rename_all: None, fields: None },
    ];
    let e = b.add_type("HUnitAllLower", TypeKind::UnitEnum { rename_all: Some(RenameAll::Lower), validate: Validate::No, variants });
    b.program("enum_unit_all_lower", e.clone());
    b.program("vec_enum_unit_all_lower", Desc::Vec(bx(e)));
    let variants = vec![
        VariantDef { ident: "HTTPServer".into(), rename: None, rename_all: None, fields: None },
        VariantDef { ident: "IOError".into(), rename: None, rename_all: None, fields: None },
        VariantDef { ident: "Sha256Sum".into(), rename: None, rename_all: None, fields: None },
        VariantDef { ident: "V2".into(), rename: None, rename_all: None, fields: None },
        VariantDef { ident: "Rounded_Box".into(), rename: None, rename_all: None, fields: None },
        VariantDef { ident: "snake_case_variant".into(), rename: None, rename_all: None, fields: None },
    ];
    let e = b.add_type("HUnitAcronym", TypeKind::UnitEnum { rename_all: Some(RenameAll::Camel), validate: Validate::No, variants });
    b.program("enum_unit_acronym_camel", e.clone());
    let fields = vec![b.f("line_2a"), b.f("x1y"), b.f("sha256sum"), b.f("ipv4_addr"), b.f("field_1"), FieldDef::plain("mode", e)];
    let s = b.strukt("HDigitsCamel", Some(RenameAll::Camel), Deny::Default, Validate::No, fields);
    b.program("struct_digits_camel", s.clone());
    b.program("vec_struct_digits_camel", Desc::Vec(bx(s)));

    // a variant renamed to its own identifier is exempt from rename_all
    let variants = vec![
        VariantDef { ident: "FastLane".into(), rename: None, rename_all: None, fields: None },
        VariantDef { ident: "SlowLane".into(), rename: Some("SlowLane".into()), rename_all: None, fields: None },
        VariantDef { ident: "Off".into(), rename: Some("OFF".into()), rename_all: None, fields: None },
    ];
    let e = b.add_type("HUnitSelfRename", TypeKind::UnitEnum { rename_all: Some(RenameAll::Camel), validate: Validate::No, variants: variants.clone() });
    b.program("enum_unit_self_rename", e);
    let mut vs = variants;
    let (f1, f2) = (b.f("user_name"), b.f("user_name"));
    vs[0].fields = Some(vec![f1]);
    vs[1].fields = Some(vec![f2]);
    let e = b.add_type(
        "HTaggedSelfRename",
        TypeKind::Tagged { tag: "event".into(), rename_all: Some(RenameAll::Lower), deny: Deny::No, validate: Validate::No, variants: vs },
    );
    b.program("enum_tagged_self_rename", e);

    // struct-like variants without any field, and an internally tagged enum of unit variants only
    let variants = vec![
        VariantDef { ident: "Ping".into(), rename: None, rename_all: None, fields: Some(vec![]) },
        VariantDef { ident: "Pong".into(), rename: None, rename_all: None, fields: None },
        VariantDef { ident: "Data".into(), rename: None, rename_all: None, fields: Some(vec![b.f("x")]) },
    ];
    let e = b.add_type(
        "HEmptyVariantDeny",
        TypeKind::Tagged { tag: "kind".into(), rename_all: None, deny: Deny::Default, validate: Validate::No, variants: variants.clone() },
    );
    b.program("enum_empty_variant_deny", e.clone());
    b.program("vec_enum_empty_variant_deny", Desc::Vec(bx(e)));
    let id = b.fid();
    let e = b.add_type(
        "HEmptyVariantDenyCustom",
        TypeKind::Tagged { tag: "kind".into(), rename_all: Some(RenameAll::Lower), deny: Deny::Custom(id), validate: Validate::No, variants },
    );
    b.program("enum_empty_variant_deny_custom", e);
    let variants = vec![
        VariantDef { ident: "Start".into(), rename: None, rename_all: None, fields: None },
        VariantDef { ident: "Halt".into(), rename: Some("HALT".into()), rename_all: None, fields: None },
        VariantDef { ident: "KeepGoing".into(), rename: None, rename_all: None, fields: None },
    ];
    let v = b.fid();
    let e = b.add_type(
        "HTaggedUnitOnly",
        TypeKind::Tagged { tag: "type".into(), rename_all: Some(RenameAll::Camel), deny: Deny::No, validate: Validate::SameErr(v), variants },
    );
    b.program("enum_tagged_unit_only", e.clone());
    b.program("hashmap_enum_tagged_unit_only", Desc::HashMap(KeyTy::Str, bx(e)));

    // tagged, as in tests/attributes/tag.rs: unit + struct-like variants, shared field names
    let variants = vec![
        VariantDef { ident: "Empty".into(), rename: None, rename_all: None, fields: None },
        VariantDef {
            ident: "Pair".into(),
            rename: None,
            rename_all: None,
            fields: Some(vec![b.f("x"), b.f("y")]),
        },
        VariantDef {
            ident: "Other".into(),
            rename: Some("autre".into()),
            rename_all: Some(RenameAll::Camel),
            fields: Some(vec![b.f("x"), b.f("long_name")]),
        },
    ];
    let e = b.add_type(
        "HTagged",
        TypeKind::Tagged { tag: "kind".into(), rename_all: None, deny: Deny::No, validate: Validate::No, variants },
    );
    b.program("enum_tagged", e.clone());
    b.program("vec_enum_tagged", Desc::Vec(bx(e)));

    // container rename_all renames variants only; deny applies to every variant; field key == tag key
    let mut dflt = b.f("opt_field");
    dflt.default = Dflt::Trait;
    let mut clash = b.f("type_field");
    clash.rename = Some("type".into());
    let variants = vec![
        VariantDef {
            ident: "FirstCase".into(),
            rename: None,
            rename_all: None,
            fields: Some(vec![b.f("snake_field"), dflt]),
        },
        VariantDef {
            ident: "SecondCase".into(),
            rename: None,
            rename_all: Some(RenameAll::Lower),
            fields: Some(vec![b.f("snakeField"), FieldDef::plain("count", sc(Sc::U8))]),
        },
        VariantDef { ident: "ThirdCase".into(), rename: None, rename_all: None, fields: None },
        VariantDef {
            ident: "Clash".into(),
            rename: None,
            rename_all: None,
            fields: Some(vec![clash, b.f("fine")]),
        },
    ];
    let v = b.fid();
    let e = b.add_type(
        "HTaggedCamel",
        TypeKind::Tagged {
            tag: "type".into(),
            rename_all: Some(RenameAll::Camel),
            deny: Deny::Default,
            validate: Validate::User(v),
            variants,
        },
    );
    b.program("enum_tagged_camel_deny", e.clone());
    b.program("btreemap_enum_tagged_camel", Desc::BTreeMap(KeyTy::Str, bx(e.clone())));
    let fields = vec![FieldDef::plain("choice", e), b.f("after")];
    let s = b.strukt("HWithEnum", None, Deny::No, Validate::No, fields);
    b.program("struct_with_enum", s);

    // --- container-level from / try_from ------------------------------------------------------
    let id = b.fid();
    let w = b.add_type(
        "HWrapFrom",
        TypeKind::Wrapper { src: s_plain.clone(), fn_id: id, fallible: false, by_ref: false, validate: Validate::No },
    );
    b.program("wrap_from", w.clone());
    b.program("vec_wrap_from", Desc::Vec(bx(w)));
    let id = b.fid();
    let v = b.fid();
    let src = Desc::Vec(bx(b.p()));
    let w = b.add_type(
        "HWrapTry",
        TypeKind::Wrapper { src, fn_id: id, fallible: true, by_ref: false, validate: Validate::User(v) },
    );
    b.program("wrap_try", w.clone());
    b.program("vec_wrap_try", Desc::Vec(bx(w.clone())));
    // the same shape with every container attribute in one `#[deserr(..)]` (names ending in `One`)
    let id1 = b.fid();
    let v1 = b.fid();
    let src1 = Desc::Vec(bx(b.p()));
    let w_one = b.add_type(
        "HWrapTryValidatedOne",
        TypeKind::Wrapper { src: src1, fn_id: id1, fallible: true, by_ref: false, validate: Validate::User(v1) },
    );
    b.program("wrap_try_one_attribute", w_one.clone());
    b.program("vec_wrap_try_one_attribute", Desc::Vec(bx(w_one)));
    let id = b.fid();
    let w2 = b.add_type(
        "HWrapTryRef",
        TypeKind::Wrapper { src: s_val.clone(), fn_id: id, fallible: true, by_ref: true, validate: Validate::No },
    );
    b.program("wrap_try_ref", w2.clone());
    let id = b.fid();
    let wp = b.p();
    let w3 = b.add_type(
        "HWrapFromRef",
        TypeKind::Wrapper { src: Desc::Tuple(vec![w2, wp]), fn_id: id, fallible: false, by_ref: true, validate: Validate::No },
    );
    b.program("wrap_from_ref", w3.clone());
    let fields = vec![FieldDef::plain("w", w), FieldDef::plain("w3", w3), b.f("tail")];
    let s = b.strukt("HWithWrappers", None, Deny::Default, Validate::No, fields);
    b.program("struct_with_wrappers", s);
}

// ---------------------------------------------------------------------------------------------
// random generator
// ---------------------------------------------------------------------------------------------

const WORDS: [&str; 10] = ["alpha", "beta", "gamma", "delta", "omega", "kappa", "sigma", "theta", "zeta", "lambda"];
const VARIANTS: [&str; 8] = ["Alpha", "BetaGamma", "DeltaOmega", "Kappa", "SigmaTheta", "Zeta", "LambdaMu", "Omicron"];
const TAGS: [&str; 5] = ["kind", "type", "t", "tag_key", "alpha"];

fn cap(w: &str) -> String {
    let mut c = w.chars();
    match c.next() {
        Some(f) => f.to_uppercase().collect::<String>() + c.as_str(),
        None => String::new(),
    }
}

fn gen_ident(rng: &mut Rng) -> String {
    let a = *rng.pick(&WORDS);
    match rng.below(10) {
        0..=3 => a.to_string(),
        4..=6 => format!("{a}_{}", rng.pick(&WORDS)),
        7 => format!("{a}_{}_{}", rng.pick(&WORDS), rng.pick(&WORDS)),
        8 => format!("{a}{}", cap(*rng.pick(&WORDS))),
        _ => cap(a),
    }
}

fn gen_leaf(b: &mut Builder, rng: &mut Rng) -> Desc {
    if rng.chance(2, 3) {
        b.p()
    } else {
        match rng.below(3) {
            0 => sc(Sc::Int(*rng.pick(&INT_TYPES))),
            _ => sc(*rng.pick(&[Sc::Bool, Sc::U8, Sc::I32, Sc::U64, Sc::Str, Sc::Char, Sc::F64, Sc::F32, Sc::Unit])),
        }
    }
}

fn gen_desc(b: &mut Builder, rng: &mut Rng, depth: usize, named_from: usize) -> Desc {
    let n_named = b.cat.types.len() - named_from;
    if depth == 0 || rng.chance(2, 5) {
        if n_named > 0 && rng.chance(1, 4) {
            return Desc::Named(named_from + rng.below(n_named));
        }
        return gen_leaf(b, rng);
    }
    match rng.below(14) {
        0 | 1 => Desc::Vec(bx(gen_desc(b, rng, depth - 1, named_from))),
        2 | 3 => Desc::Option(bx(gen_desc(b, rng, depth - 1, named_from))),
        4 => Desc::Boxed(bx(gen_desc(b, rng, depth - 1, named_from))),
        5 => {
            let k = *rng.pick(&[KeyTy::Str, KeyTy::Str, KeyTy::U8, KeyTy::I32, KeyTy::Char]);
            Desc::HashMap(k, bx(gen_desc(b, rng, depth - 1, named_from)))
        }
        6 => {
            let k = *rng.pick(&[KeyTy::Str, KeyTy::Str, KeyTy::U8, KeyTy::I32, KeyTy::Char]);
            Desc::BTreeMap(k, bx(gen_desc(b, rng, depth - 1, named_from)))
        }
        7 => {
            let e = if rng.chance(1, 2) { b.p() } else { sc(*rng.pick(&[Sc::U8, Sc::Str, Sc::Bool, Sc::I32, Sc::Char])) };
            if rng.chance(1, 2) {
                Desc::HashSet(bx(e))
            } else {
                Desc::BTreeSet(bx(e))
            }
        }
        8 | 9 => Desc::Array(rng.below(4), bx(gen_desc(b, rng, depth - 1, named_from))),
        10 | 11 => {
            let n = 2 + rng.below(2);
            Desc::Tuple((0..n).map(|_| gen_desc(b, rng, depth - 1, named_from)).collect())
        }
        12 if rng.chance(1, 4) => Desc::Phantom,
        12 => Desc::Cs(*rng.pick(&[Sc::U8, Sc::Str, Sc::I32, Sc::Bool])),
        _ => Desc::Json,
    }
}

const UNICODE_IDENTS: [&str; 6] = ["Élan", "ÑANDU", "größe_MAX", "ÇA_va", "Øre", "ÉTÉ"];

fn gen_fields(b: &mut Builder, rng: &mut Rng, rename_all: Option<RenameAll>, named_from: usize, tag: Option<&str>) -> Vec<FieldDef> {
    // mostly small containers; now and then a wide one (sorting / pairing code paths differ)
    let n = if rng.chance(1, 12) { 21 + rng.below(8) } else { rng.below(7) };
    let mut fields: Vec<FieldDef> = vec![];
    let mut attempts = 0;
    while fields.len() < n && attempts < 400 {
        attempts += 1;
        let mut ident = gen_ident(rng);
        // outside camelCase the documented rule is unambiguous for any identifier Rust accepts
        if rename_all != Some(RenameAll::Camel) && rng.chance(1, 15) {
            ident = rng.pick(&UNICODE_IDENTS).to_string();
        }
        if fields.iter().any(|f| f.ident == ident) {
            continue;
        }
        let mut f = FieldDef::plain(&ident, Desc::Unit_placeholder());
        // type
        let special = rng.below(10);
        if special < 3 {
            // a Probe-typed field that may carry conv / map / default expr
            f.ty = b.p();
            match rng.below(6) {
                0 => f.conv = Conv::From { src: gen_desc(b, rng, 2, named_from), fn_id: b.fid(), by_ref: rng.chance(1, 2) },
                1 | 2 => f.conv = Conv::TryFrom { src: gen_desc(b, rng, 2, named_from), fn_id: b.fid(), by_ref: rng.chance(1, 2) },
                _ => {}
            }
            if rng.chance(1, 3) {
                f.map = Some(b.fid());
            }
            match rng.below(6) {
                0 => f.default = Dflt::Trait,
                1 => f.default = Dflt::Expr(b.tok()),
                _ => {}
            }
        } else {
            f.ty = gen_desc(b, rng, 2, named_from);
            if b.cat.has_default_impl(&f.ty) && rng.chance(1, 5) {
                f.default = Dflt::Trait;
            }
        }
        if (b.cat.has_default_impl(&f.ty) || matches!(f.default, Dflt::Expr(_))) && rng.chance(1, 6) {
            f.skip = true;
            // a skipped field never reads the payload: conv is meaningless there
            f.conv = Conv::No;
        }
        // a custom missing-field function, now and then also on a field that has a default
        // (the default wins: such a field is never missing)
        if (!f.has_default() && rng.chance(1, 6)) || (f.has_default() && !f.skip && rng.chance(1, 8)) {
            let id = b.fid();
            f.missing_fn = Some(id);
            f.missing_user = id % 2 == 1;
        }
        if !f.skip && rng.chance(1, 8) {
            f.error_b = true;
        }
        if !f.skip {
            // a bound-only attribute; decided without drawing so that the catalogue keeps its shape
            f.needs_predicate = crate::rng::hash_str(&f.ident) % 4 == 0;
        }
        if rng.chance(1, 4) {
            // rename: sometimes to a near-miss of another spelling of the same identifier
            f.rename = Some(match rng.below(6) {
                5 => ident.clone(),
                0 if ident.is_ascii() => camel(&ident),
                0 => format!("{}_r", ident.to_lowercase()),
                1 => ident.to_uppercase(),
                2 => format!("{}_renamed", ident.to_lowercase()),
                3 => rng.pick(&WORDS).to_string(),
                _ if rng.chance(1, 6) => String::new(),
                _ if rng.chance(1, 6) => format!("r#{}", ident.to_lowercase()),
                _ => format!("r{}", rng.below(100)),
            });
        }
        // effective keys of non-skipped fields must be pairwise distinct (the derive would emit
        // duplicate match arms otherwise, which no property speaks about)
        if !f.skip {
            let k = f.key(rename_all);
            if fields.iter().any(|g| !g.skip && g.key(rename_all) == k) {
                continue;
            }
            // a field key equal to the tag key is a scenario of its own; allow it rarely
            if let Some(t) = tag {
                if k == t && !rng.chance(1, 3) {
                    continue;
                }
            }
        }
        fields.push(f);
    }
    fields
}

impl Desc {
    #[allow(non_snake_case)]
    fn Unit_placeholder() -> Desc {
        Desc::Scalar(Sc::Unit)
    }
}

fn gen_rename_all(rng: &mut Rng) -> Option<RenameAll> {
    match rng.below(4) {
        0 => Some(RenameAll::Camel),
        1 => Some(RenameAll::Lower),
        _ => None,
    }
}

fn gen_validate(b: &mut Builder, rng: &mut Rng) -> Validate {
    match rng.below(7) {
        0 => Validate::User(b.fid()),
        1 => Validate::SameErr(b.fid()),
        _ => Validate::No,
    }
}

fn gen_deny(b: &mut Builder, rng: &mut Rng) -> Deny {
    match rng.below(10) {
        0..=2 => Deny::Default,
        3 => Deny::Custom(b.fid()),
        4 => Deny::CustomUser(b.fid()),
        _ => Deny::No,
    }
}

fn gen_variants(b: &mut Builder, rng: &mut Rng, container_rename_all: Option<RenameAll>, unit_only: bool, named_from: usize, tag: Option<&str>) -> Vec<VariantDef> {
    let n = 1 + rng.below(5);
    let mut out: Vec<VariantDef> = vec![];
    let mut attempts = 0;
    while out.len() < n && attempts < 40 {
        attempts += 1;
        let ident = rng.pick(&VARIANTS).to_string();
        if out.iter().any(|v| v.ident == ident) {
            continue;
        }
        let rename = if rng.chance(1, 4) {
            Some(match rng.below(5) {
                4 => ident.clone(),
                0 => ident.to_uppercase(),
                1 => ident.to_lowercase(),
                2 => camel(&ident),
                _ => format!("v{}", rng.below(50)),
            })
        } else {
            None
        };
        let key = effective_key(&ident, &rename, container_rename_all);
        if out.iter().any(|v| effective_key(&v.ident, &v.rename, container_rename_all) == key) {
            continue;
        }
        let (rename_all, fields) = if unit_only || rng.chance(1, 4) {
            (None, None)
        } else {
            let ra = gen_rename_all(rng);
            (ra, Some(gen_fields(b, rng, ra, named_from, tag)))
        };
        out.push(VariantDef { ident, rename, rename_all, fields });
    }
    out
}

/// Append `n` randomly generated type definitions (and a few programs over each).
pub fn generate(b: &mut Builder, rng: &mut Rng, n: usize) {
    b.origin = "gen";
    let named_from = b.cat.types.len();
    for i in 0..n {
        let name = format!("G{i}");
        let d = match rng.below(10) {
            0..=4 => {
                let ra = gen_rename_all(rng);
                let fields = gen_fields(b, rng, ra, named_from, None);
                let deny = gen_deny(b, rng);
                let validate = gen_validate(b, rng);
                b.strukt(&name, ra, deny, validate, fields)
            }
            5 | 6 | 7 => {
                let ra = gen_rename_all(rng);
                let tag = rng.pick(&TAGS).to_string();
                let variants = gen_variants(b, rng, ra, false, named_from, Some(&tag));
                let deny = gen_deny(b, rng);
                let validate = gen_validate(b, rng);
                b.add_type(&name, TypeKind::Tagged { tag, rename_all: ra, deny, validate, variants })
            }
            8 => {
                let ra = gen_rename_all(rng);
                let variants = gen_variants(b, rng, ra, true, named_from, None);
                let validate = gen_validate(b, rng);
                b.add_type(&name, TypeKind::UnitEnum { rename_all: ra, validate, variants })
            }
            _ => {
                let src = gen_desc(b, rng, 2, named_from);
                let validate = gen_validate(b, rng);
                let fn_id = b.fid();
                b.add_type(
                    &name,
                    TypeKind::Wrapper { src, fn_id, fallible: rng.chance(2, 3), by_ref: rng.chance(1, 2), validate },
                )
            }
        };
        b.program(&format!("gen_{i}"), d.clone());
        // and one program nesting it inside a container
        let nested = match rng.below(7) {
            0 => Desc::Vec(bx(d)),
            1 => Desc::Option(bx(d)),
            2 => Desc::HashMap(KeyTy::Str, bx(d)),
            3 => Desc::BTreeMap(KeyTy::U8, bx(d)),
            4 => Desc::Tuple(vec![b.p(), d]),
            5 => Desc::Array(2, bx(d)),
            _ => Desc::Vec(bx(Desc::Option(bx(d)))),
        };
        b.program(&format!("gen_{i}_nested"), nested);
    }
}

/// The whole catalogue for a program seed: the hand part followed by `n_gen` generated types.
pub fn catalogue(program_seed: u64, n_gen: usize) -> Catalogue {
    let mut b = Builder::new();
    hand(&mut b);
    let mut rng = Rng::new(crate::rng::mix(program_seed, 0xCA7A, 0));
    generate(&mut b, &mut rng, n_gen);
    b.cat
}

// ---------------------------------------------------------------------------------------------
// the uniform catalogue
// ---------------------------------------------------------------------------------------------

/// Derive inputs in which EVERY field has the same type (`Probe<1>`), so that generated code
/// which pairs the wrong key / state / default with a field still type-checks and the mistake
/// shows at run time through the provenance tokens. In the ordinary catalogue such a mistake is
/// (also) a compile error, which `./check` can only report as "engine does not build"; it then
/// falls back to this catalogue.
pub fn uniform(program_seed: u64, n: usize) -> Catalogue {
    let mut b = Builder::new();
    b.origin = "uniform";
    let mut rng = Rng::new(crate::rng::mix(program_seed, 0x0F0F, 0));
    let p = || Desc::Probe(1);
    for i in 0..n {
        let ra = gen_rename_all(&mut rng);
        let tagged = rng.chance(1, 3);
        let tag = rng.pick(&TAGS).to_string();
        let mk_fields = |b: &mut Builder, rng: &mut Rng, ra: Option<RenameAll>| -> Vec<FieldDef> {
            let n = if rng.chance(1, 10) { 21 + rng.below(6) } else { 2 + rng.below(6) };
            let mut fields: Vec<FieldDef> = vec![];
            let mut attempts = 0;
            while fields.len() < n && attempts < 300 {
                attempts += 1;
                let ident = gen_ident(rng);
                if fields.iter().any(|f| f.ident == ident) {
                    continue;
                }
                let mut f = FieldDef::plain(&ident, p());
                match rng.below(8) {
                    0 => f.skip = true,
                    1 => f.default = Dflt::Trait,
                    2 => f.default = Dflt::Expr(b.tok()),
                    3 => {
                        f.skip = true;
                        f.default = Dflt::Expr(b.tok());
                    }
                    4 => {
                        let id = b.fid();
                        f.missing_fn = Some(id);
                        f.missing_user = id % 2 == 1;
                    }
                    5 if rng.chance(1, 2) => {
                        f.default = Dflt::Trait;
                        f.missing_fn = Some(b.fid());
                    }
                    _ => {}
                }
                if !f.skip {
                    match rng.below(8) {
                        0 => f.conv = Conv::From { src: p(), fn_id: b.fid(), by_ref: rng.chance(1, 2) },
                        1 => f.conv = Conv::TryFrom { src: p(), fn_id: b.fid(), by_ref: rng.chance(1, 2) },
                        _ => {}
                    }
                    if rng.chance(1, 10) {
                        f.error_b = true;
                    }
                }
                if rng.chance(1, 5) {
                    f.map = Some(b.fid());
                }
                if rng.chance(1, 4) {
                    f.rename = Some(format!("r{}_{}", fields.len(), ident.to_lowercase()));
                }
                if !f.skip {
                    let k = f.key(ra);
                    if fields.iter().any(|g| !g.skip && g.key(ra) == k) || k == tag {
                        continue;
                    }
                }
                fields.push(f);
            }
            fields
        };
        let name = format!("U{i}");
        let d = if tagged {
            let nv = 1 + rng.below(3);
            let mut variants = vec![];
            for v in 0..nv {
                let vra = gen_rename_all(&mut rng);
                let fields = match rng.below(10) {
                    0 | 1 => None,
                    2 => Some(vec![]),
                    _ => Some(mk_fields(&mut b, &mut rng, vra)),
                };
                variants.push(VariantDef { ident: VARIANTS[v].to_string(), rename: None, rename_all: vra, fields });
            }
            let deny = gen_deny(&mut b, &mut rng);
            let validate = gen_validate(&mut b, &mut rng);
            b.add_type(&name, TypeKind::Tagged { tag: tag.clone(), rename_all: ra, deny, validate, variants })
        } else {
            let fields = mk_fields(&mut b, &mut rng, ra);
            let deny = gen_deny(&mut b, &mut rng);
            let validate = gen_validate(&mut b, &mut rng);
            b.strukt(&name, ra, deny, validate, fields)
        };
        b.program(&format!("uniform_{i}"), d.clone());
        b.program(&format!("uniform_{i}_vec"), Desc::Vec(bx(d)));
    }
    b.cat
}
