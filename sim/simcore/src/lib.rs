pub mod catalogue;
pub mod desc;
pub mod doc;
pub mod docgen;
pub mod emit;
pub mod model;
pub mod mval;
pub mod rng;
