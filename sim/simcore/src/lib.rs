pub mod catalogue;
pub mod desc;
pub mod doc;
pub mod emit;
pub mod mval;
pub mod rng;
