//! `MVal`: the structural model of a successfully deserialized value. Both the reference
//! interpreter (expected) and `ToModel` on the real result (actual) produce it.

use crate::doc::{path_str, Path};
use crate::rng::Fnv;

#[derive(Clone, Debug, PartialEq, Eq, Hash, PartialOrd, Ord)]
pub enum MVal {
    Unit,
    Bool(bool),
    Int(i128),
    F64(u64),
    Str(String),
    Char(char),
    /// A Probe leaf filled from the payload: which probe type, at which position it was handed
    /// the value, and the (order-insensitive) digest of the value it saw.
    Token { probe: u32, path: Path, digest: u64 },
    /// `Default::default()` of Probe<id>
    DfltTrait(u32),
    /// `default = Probe::dflt(token)`
    DfltExpr(u32),
    /// Output of a user function (from / try_from / map / container wrapper).
    Conv { fn_id: u32, inner: Box<MVal> },
    None,
    Some(Box<MVal>),
    Seq(Vec<MVal>),
    /// sorted, deduplicated
    Set(Vec<MVal>),
    /// sorted by key rendering
    Map(Vec<(String, MVal)>),
    Struct { name: String, fields: Vec<(String, MVal)> },
    Variant { name: String, variant: String, fields: Vec<(String, MVal)> },
    /// canonical rendering (sorted keys) of a serde_json::Value target
    Json(String),
}

impl MVal {
    pub fn set(mut items: Vec<MVal>) -> MVal {
        items.sort();
        items.dedup();
        MVal::Set(items)
    }

    /// Later entries with the same key win (map insertion semantics).
    pub fn map(items: Vec<(String, MVal)>) -> MVal {
        let mut out: Vec<(String, MVal)> = vec![];
        for (k, v) in items {
            if let Some(e) = out.iter_mut().find(|(k2, _)| *k2 == k) {
                e.1 = v;
            } else {
                out.push((k, v));
            }
        }
        out.sort_by(|a, b| a.0.cmp(&b.0));
        MVal::Map(out)
    }

    pub fn hash(&self) -> u64 {
        let mut f = Fnv::new();
        f.str(&self.render());
        f.finish()
    }

    pub fn render(&self) -> String {
        match self {
            MVal::Unit => "()".into(),
            MVal::Bool(b) => format!("{b}"),
            MVal::Int(i) => format!("{i}"),
            MVal::F64(b) => format!("f64:{:?}", f64::from_bits(*b)),
            MVal::Str(s) => format!("{s:?}"),
            MVal::Char(c) => format!("{c:?}"),
            MVal::Token { probe, path, digest } => {
                format!("P{probe}@{}#{:08x}", path_str(path), digest & 0xffff_ffff)
            }
            MVal::DfltTrait(p) => format!("P{p}::default"),
            MVal::DfltExpr(t) => format!("dflt({t})"),
            MVal::Conv { fn_id, inner } => format!("f{fn_id}({})", inner.render()),
            MVal::None => "None".into(),
            MVal::Some(x) => format!("Some({})", x.render()),
            MVal::Seq(v) => format!("[{}]", v.iter().map(|x| x.render()).collect::<Vec<_>>().join(",")),
            MVal::Set(v) => format!("set{{{}}}", v.iter().map(|x| x.render()).collect::<Vec<_>>().join(",")),
            MVal::Map(v) => format!(
                "map{{{}}}",
                v.iter().map(|(k, x)| format!("{k:?}=>{}", x.render())).collect::<Vec<_>>().join(",")
            ),
            MVal::Struct { name, fields } => format!(
                "{name}{{{}}}",
                fields.iter().map(|(k, x)| format!("{k}:{}", x.render())).collect::<Vec<_>>().join(",")
            ),
            MVal::Variant { name, variant, fields } => format!(
                "{name}::{variant}{{{}}}",
                fields.iter().map(|(k, x)| format!("{k}:{}", x.render())).collect::<Vec<_>>().join(",")
            ),
            MVal::Json(s) => format!("json:{s}"),
        }
    }
}
