//! catgen --seed <u64> --n-gen <usize> --out <path>: write the Rust source of the catalogue.
use simcore::{catalogue, emit};

fn main() {
    let args: Vec<String> = std::env::args().collect();
    let mut seed: u64 = 1;
    let mut n_gen: usize = 40;
    let mut out: Option<String> = None;
    let mut uniform = false;
    let mut i = 1;
    while i < args.len() {
        match args[i].as_str() {
            "--seed" => {
                seed = args[i + 1].parse().expect("seed");
                i += 2;
            }
            "--n-gen" => {
                n_gen = args[i + 1].parse().expect("n-gen");
                i += 2;
            }
            "--uniform" => {
                uniform = true;
                i += 1;
            }
            "--out" => {
                out = Some(args[i + 1].clone());
                i += 2;
            }
            other => {
                eprintln!("unknown argument {other}");
                std::process::exit(2);
            }
        }
    }
    let cat = if uniform { catalogue::uniform(seed, n_gen) } else { catalogue::catalogue(seed, n_gen) };
    let src = emit::emit(&cat, seed, n_gen, uniform);
    match out {
        Some(p) => {
            std::fs::write(&p, src).expect("write");
            eprintln!("catgen: {} types, {} programs -> {p}", cat.types.len(), cat.programs.len());
        }
        None => print!("{src}"),
    }
}
