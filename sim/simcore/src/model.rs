//! The reference interpreter of the documented semantics, for the keep-going, duplicate-free
//! configuration. Written from the book and the property statements, not from `impls.rs`.
//! It predicts, for (program, delivered document, leaf faults, callback faults): the value or
//! the multiset of reports, which leaves are visited, which callbacks are called with what, and
//! at which child positions an accumulating container must hand an error over.

use crate::desc::*;
use crate::doc::{Doc, Kind, Path, Step};
use crate::mval::MVal;

#[derive(Clone, Debug, PartialEq)]
pub enum ExpClass {
    /// accepted compared as a set; actual by (order-insensitive) document equality
    Kind { actual: Doc, accepted: Vec<Kind> },
    Missing { field: String },
    UnknownKey { key: String, accepted: Vec<String> },
    UnknownValue { value: String, accepted: Vec<String> },
    BadLen { actual: Vec<Doc>, expected: usize },
    /// message text unconstrained except that it must contain `contains` when given
    Unexpected { contains: Option<String> },
    /// a user error handed to the error type
    Foreign { token: String },
    /// exactly one report at this location, of any kind (unknown tag value)
    Any,
}

#[derive(Clone, Debug, PartialEq)]
pub struct ExpReport {
    pub class: ExpClass,
    pub loc: Path,
    /// which error type the report is made to: 0 = the caller's, 1 = a field-level
    /// `error = SimErrB` (and everything deserialized beneath such a field)
    pub ty: u8,
}

#[derive(Clone, Copy, Debug, PartialEq, Eq)]
pub enum CallStage {
    From,
    TryFrom,
    Map,
    Validate,
    Missing,
    Unknown,
    WrapFrom,
    WrapTryFrom,
}

#[derive(Clone, Debug, PartialEq)]
pub struct ExpCall {
    pub fn_id: u32,
    pub stage: CallStage,
    pub arg: Option<MVal>,
    pub loc: Option<Path>,
    pub key: Option<String>,
    pub accepted: Option<Vec<String>>,
    pub failed: bool,
}

#[derive(Clone, Debug, Default)]
pub struct Expect {
    pub value: Option<MVal>,
    pub reports: Vec<ExpReport>,
    /// (probe id, position, digest of the value there, leaf fault fired)
    pub visits: Vec<(u32, Path, u64, bool)>,
    pub calls: Vec<ExpCall>,
    /// child positions whose subtree failed inside an accumulating container
    pub handovers: Vec<Path>,
    /// reach probes
    pub max_fail_depth: usize,
    /// unknown keys met under a denying container (whatever the form of the report)
    pub unknown_denied: usize,
    /// object members whose value is decoded (`IntoValue::into_value`): the tag, the members a
    /// non-skipped field reads, map entries whose key parses, everything inside a free-form target
    pub decodes: Vec<Path>,
}

pub struct Model<'a> {
    pub cat: &'a Catalogue,
    pub leaf_faults: &'a [Path],
    pub cb_faults: &'a [(u32, u64)],
}

thread_local! {
    /// error-type context of the position being interpreted (see ExpReport::ty)
    static TY: std::cell::Cell<u8> = std::cell::Cell::new(0);
}

fn cur_ty() -> u8 {
    TY.with(|t| t.get())
}

fn push(loc: &Path, s: Step) -> Path {
    let mut p = loc.clone();
    p.push(s);
    p
}

/// What a `serde_json::Value` built from the document holds: JSON has one kind of integer, so a
/// non-negative number handed over as `NegativeInteger` is the same number there.
pub fn json_view(d: &Doc) -> Doc {
    match d {
        Doc::Neg(n) if *n >= 0 => Doc::Int(*n as u64),
        Doc::Seq(v) => Doc::Seq(v.iter().map(json_view).collect()),
        Doc::Map(m) => Doc::Map(m.iter().map(|(k, v)| (k.clone(), json_view(v))).collect()),
        other => other.clone(),
    }
}

pub fn user_token(fn_id: u32, arg_hash: u64) -> String {
    format!("user#{fn_id}:{arg_hash:016x}")
}

pub fn trait_default(d: &Desc) -> MVal {
    match d {
        Desc::Probe(id) => MVal::DfltTrait(*id),
        Desc::Scalar(s) => match s {
            Sc::Bool => MVal::Bool(false),
            Sc::U8 | Sc::I32 | Sc::U64 | Sc::Int(_) => MVal::Int(0),
            Sc::Str => MVal::Str(String::new()),
            Sc::Char => MVal::Char('\0'),
            Sc::F64 | Sc::F32 => MVal::F64(0f64.to_bits()),
            Sc::Unit => MVal::Unit,
        },
        Desc::Option(_) => MVal::None,
        Desc::Phantom => MVal::Unit,
        Desc::Vec(_) => MVal::Seq(vec![]),
        Desc::HashSet(_) | Desc::BTreeSet(_) => MVal::Set(vec![]),
        Desc::HashMap(..) | Desc::BTreeMap(..) => MVal::Map(vec![]),
        other => panic!("no Default for {other:?}"),
    }
}

enum FState {
    Missing,
    Err,
    Some(MVal),
}

impl<'a> Model<'a> {
    pub fn run(&self, root: &Desc, doc: &Doc) -> Expect {
        let mut out = Expect::default();
        TY.with(|t| t.set(0));
        let v = self.interp(root, doc, &vec![], &mut out);
        debug_assert_eq!(v.is_some(), out.reports.is_empty());
        out.value = v;
        out
    }

    fn cb_fails(&self, fn_id: u32, arg: &MVal) -> bool {
        let h = arg.hash();
        self.cb_faults.iter().any(|(f, x)| *f == fn_id && *x == h)
    }

    fn report(&self, out: &mut Expect, class: ExpClass, loc: &Path) {
        out.max_fail_depth = out.max_fail_depth.max(loc.len());
        out.reports.push(ExpReport { class, loc: loc.clone(), ty: cur_ty() });
    }

    fn kind_err(&self, out: &mut Expect, doc: &Doc, accepted: &[Kind], loc: &Path) -> Option<MVal> {
        self.report(out, ExpClass::Kind { actual: doc.clone(), accepted: accepted.to_vec() }, loc);
        None
    }

    fn scalar(&self, s: Sc, doc: &Doc, loc: &Path, out: &mut Expect) -> Option<MVal> {
        let unexpected = |out: &mut Expect| {
            self.report(out, ExpClass::Unexpected { contains: None }, loc);
            None
        };
        if let Some(t) = s.int_ty() {
            // admissible kinds: non-negative integers always, negative integers for signed
            // targets; then the value must lie in the target's domain (range, non-zero)
            let v: i128 = match doc {
                Doc::Int(x) => *x as i128,
                Doc::Neg(x) if t.signed => *x as i128,
                d => {
                    let acc: &[Kind] = if t.signed { &[Kind::Integer, Kind::NegativeInteger] } else { &[Kind::Integer] };
                    return self.kind_err(out, d, acc, loc);
                }
            };
            if v < t.min || v > t.max || (t.nonzero && v == 0) {
                return unexpected(out);
            }
            return Some(MVal::Int(v));
        }
        match s {
            Sc::U8 | Sc::U64 | Sc::I32 | Sc::Int(_) => unreachable!(),
            Sc::Bool => match doc {
                Doc::Bool(b) => Some(MVal::Bool(*b)),
                d => self.kind_err(out, d, &[Kind::Boolean], loc),
            },
            Sc::F64 => match doc {
                Doc::Int(x) => Some(MVal::F64((*x as f64).to_bits())),
                Doc::Neg(x) => Some(MVal::F64((*x as f64).to_bits())),
                Doc::Float(x) => Some(MVal::F64(x.to_bits())),
                d => self.kind_err(out, d, &[Kind::Float, Kind::Integer, Kind::NegativeInteger], loc),
            },
            Sc::F32 => match doc {
                Doc::Int(x) => Some(MVal::F64(((*x as f32) as f64).to_bits())),
                Doc::Neg(x) => Some(MVal::F64(((*x as f32) as f64).to_bits())),
                Doc::Float(x) => Some(MVal::F64(((*x as f32) as f64).to_bits())),
                d => self.kind_err(out, d, &[Kind::Float, Kind::Integer, Kind::NegativeInteger], loc),
            },
            Sc::Str => match doc {
                Doc::Str(x) => Some(MVal::Str(x.clone())),
                d => self.kind_err(out, d, &[Kind::String], loc),
            },
            Sc::Char => match doc {
                Doc::Str(x) => {
                    let mut it = x.chars();
                    match (it.next(), it.next()) {
                        (Some(c), None) => Some(MVal::Char(c)),
                        _ => unexpected(out),
                    }
                }
                d => self.kind_err(out, d, &[Kind::String], loc),
            },
            Sc::Unit => match doc {
                Doc::Null => Some(MVal::Unit),
                d => self.kind_err(out, d, &[Kind::Null], loc),
            },
        }
    }

    fn cs_item(s: Sc, piece: &str) -> Option<MVal> {
        match s {
            Sc::U8 => piece.parse::<u8>().ok().map(|x| MVal::Int(x as i128)),
            Sc::I32 => piece.parse::<i32>().ok().map(|x| MVal::Int(x as i128)),
            Sc::U64 => piece.parse::<u64>().ok().map(|x| MVal::Int(x as i128)),
            Sc::Bool => piece.parse::<bool>().ok().map(MVal::Bool),
            Sc::Str => Some(MVal::Str(piece.to_string())),
            Sc::Char => piece.parse::<char>().ok().map(MVal::Char),
            Sc::F64 => piece.parse::<f64>().ok().map(|x| MVal::F64(x.to_bits())),
            Sc::Unit | Sc::F32 | Sc::Int(_) => None,
        }
    }

    fn seq_elems(
        &self,
        elem: &dyn Fn(usize) -> &'a Desc,
        items: &[Doc],
        loc: &Path,
        out: &mut Expect,
    ) -> Option<Vec<MVal>> {
        let mut vals = vec![];
        let mut ok = true;
        for (i, d) in items.iter().enumerate() {
            let c = push(loc, Step::Index(i));
            match self.interp(elem(i), d, &c, out) {
                Some(v) => vals.push(v),
                None => {
                    ok = false;
                    out.handovers.push(c);
                }
            }
        }
        if ok {
            Some(vals)
        } else {
            None
        }
    }

    pub fn interp(&self, d: &'a Desc, doc: &Doc, loc: &Path, out: &mut Expect) -> Option<MVal> {
        match d {
            Desc::Probe(id) => {
                let failed = self.leaf_faults.iter().any(|p| p == loc);
                out.visits.push((*id, loc.clone(), doc.digest(), failed));
                if failed {
                    self.report(out, ExpClass::Unexpected { contains: None }, loc);
                    None
                } else {
                    Some(MVal::Token { probe: *id, path: loc.clone(), digest: doc.digest() })
                }
            }
            Desc::Scalar(s) => self.scalar(*s, doc, loc, out),
            Desc::Option(x) => match doc {
                Doc::Null => Some(MVal::None),
                other => self.interp(x, other, loc, out).map(|v| MVal::Some(Box::new(v))),
            },
            Desc::Boxed(x) => self.interp(x, doc, loc, out),
            Desc::Vec(x) => match doc {
                Doc::Seq(items) => self.seq_elems(&|_| &**x, items, loc, out).map(MVal::Seq),
                other => self.kind_err(out, other, &[Kind::Sequence], loc),
            },
            Desc::HashSet(x) | Desc::BTreeSet(x) => match doc {
                Doc::Seq(items) => self.seq_elems(&|_| &**x, items, loc, out).map(MVal::set),
                other => self.kind_err(out, other, &[Kind::Sequence], loc),
            },
            Desc::HashMap(k, x) | Desc::BTreeMap(k, x) => match doc {
                Doc::Map(members) => {
                    let mut ok = true;
                    let mut entries = vec![];
                    for (key, v) in members {
                        match k.parse(key) {
                            None => {
                                ok = false;
                                // the key as the message quotes it (a bare " c" would also match the
                                // " could not be deserialized" of every other key's message)
                                self.report(out, ExpClass::Unexpected { contains: Some(format!("\"{key}\"")) }, loc);
                            }
                            Some(pk) => {
                                let c = push(loc, Step::Key(key.clone()));
                                out.decodes.push(c.clone());
                                match self.interp(x, v, &c, out) {
                                    Some(val) => entries.push((pk, val)),
                                    None => {
                                        ok = false;
                                        out.handovers.push(c);
                                    }
                                }
                            }
                        }
                    }
                    if ok {
                        Some(MVal::map(entries))
                    } else {
                        None
                    }
                }
                other => self.kind_err(out, other, &[Kind::Map], loc),
            },
            Desc::Array(n, x) => match doc {
                Doc::Seq(items) if items.len() == *n => self.seq_elems(&|_| &**x, items, loc, out).map(MVal::Seq),
                Doc::Seq(items) => {
                    self.report(out, ExpClass::BadLen { actual: items.clone(), expected: *n }, loc);
                    None
                }
                other => self.kind_err(out, other, &[Kind::Sequence], loc),
            },
            Desc::Tuple(xs) => match doc {
                Doc::Seq(items) if items.len() == xs.len() => self.seq_elems(&|i| &xs[i], items, loc, out).map(MVal::Seq),
                Doc::Seq(items) => {
                    self.report(out, ExpClass::BadLen { actual: items.clone(), expected: xs.len() }, loc);
                    None
                }
                other => self.kind_err(out, other, &[Kind::Sequence], loc),
            },
            Desc::Cs(s) => match doc {
                Doc::Str(text) => {
                    let mut vals = vec![];
                    for piece in text.split(',').filter(|p| !p.is_empty()) {
                        match Self::cs_item(*s, piece) {
                            Some(v) => vals.push(v),
                            None => {
                                self.report(out, ExpClass::Unexpected { contains: None }, loc);
                                return None;
                            }
                        }
                    }
                    Some(MVal::Seq(vals))
                }
                other => self.kind_err(out, other, &[Kind::String], loc),
            },
            Desc::Json => {
                // the serde_json::Value target rebuilds the document; the only thing it cannot
                // hold is a non-finite float (deliverable by a second value source only)
                if self.json_target(doc, loc, out) {
                    Some(MVal::Json(json_view(doc).sorted().render()))
                } else {
                    None
                }
            }
            Desc::Phantom => Some(MVal::Unit),
            Desc::Named(i) => self.named(*i, doc, loc, out),
        }
    }

    fn json_target(&self, doc: &Doc, loc: &Path, out: &mut Expect) -> bool {
        match doc {
            Doc::Float(f) if !f.is_finite() => {
                self.report(out, ExpClass::Unexpected { contains: None }, loc);
                false
            }
            Doc::Seq(items) => {
                let mut ok = true;
                for (i, d) in items.iter().enumerate() {
                    let c = push(loc, Step::Index(i));
                    if !self.json_target(d, &c, out) {
                        ok = false;
                        out.handovers.push(c);
                    }
                }
                ok
            }
            Doc::Map(members) => {
                let mut ok = true;
                for (k, d) in members {
                    let c = push(loc, Step::Key(k.clone()));
                    out.decodes.push(c.clone());
                    if !self.json_target(d, &c, out) {
                        ok = false;
                        out.handovers.push(c);
                    }
                }
                ok
            }
            _ => true,
        }
    }

    fn validate(&self, v: &Validate, value: MVal, loc: &Path, out: &mut Expect) -> Option<MVal> {
        let (fn_id, same) = match v {
            Validate::No => return Some(value),
            Validate::User(n) => (*n, false),
            Validate::SameErr(n) => (*n, true),
        };
        let failed = self.cb_fails(fn_id, &value);
        out.calls.push(ExpCall {
            fn_id,
            stage: CallStage::Validate,
            arg: Some(value.clone()),
            loc: Some(loc.clone()),
            key: None,
            accepted: None,
            failed,
        });
        if failed {
            if same {
                self.report(out, ExpClass::Unexpected { contains: Some(format!("validate_e#{fn_id}:")) }, loc);
            } else {
                self.report(out, ExpClass::Foreign { token: user_token(fn_id, value.hash()) }, loc);
            }
            None
        } else {
            Some(value)
        }
    }

    fn named(&self, i: usize, doc: &Doc, loc: &Path, out: &mut Expect) -> Option<MVal> {
        let cat: &'a Catalogue = self.cat;
        let t = &cat.types[i];
        match &t.kind {
            TypeKind::Struct { rename_all, deny, validate, fields } => {
                let members = match doc {
                    Doc::Map(m) => m,
                    other => return self.kind_err(out, other, &[Kind::Map], loc),
                };
                let refs: Vec<&(String, Doc)> = members.iter().collect();
                let fs = self.fields(fields, *rename_all, deny, &refs, loc, out)?;
                let value = MVal::Struct { name: t.name.clone(), fields: fs };
                self.validate(validate, value, loc, out)
            }
            TypeKind::Tagged { tag, rename_all, deny, validate, variants } => {
                let members = match doc {
                    Doc::Map(m) => m,
                    other => return self.kind_err(out, other, &[Kind::Map], loc),
                };
                let tag_pos = match members.iter().position(|(k, _)| k == tag) {
                    Some(p) => p,
                    None => {
                        self.report(out, ExpClass::Missing { field: tag.clone() }, loc);
                        return None;
                    }
                };
                out.decodes.push(push(loc, Step::Key(tag.clone())));
                let name = match &members[tag_pos].1 {
                    Doc::Str(s) => s,
                    other => {
                        return self.kind_err(out, other, &[Kind::String], &push(loc, Step::Key(tag.clone())));
                    }
                };
                let variant = variants
                    .iter()
                    .find(|v| effective_key(&v.ident, &v.rename, *rename_all) == *name);
                let variant = match variant {
                    Some(v) => v,
                    None => {
                        self.report(out, ExpClass::Any, loc);
                        return None;
                    }
                };
                let value = match &variant.fields {
                    None => MVal::Variant { name: t.name.clone(), variant: variant.ident.clone(), fields: vec![] },
                    Some(fields) => {
                        let refs: Vec<&(String, Doc)> = members
                            .iter()
                            .enumerate()
                            .filter(|(p, _)| *p != tag_pos)
                            .map(|(_, m)| m)
                            .collect();
                        let fs = self.fields(fields, variant.rename_all, deny, &refs, loc, out)?;
                        MVal::Variant { name: t.name.clone(), variant: variant.ident.clone(), fields: fs }
                    }
                };
                self.validate(validate, value, loc, out)
            }
            TypeKind::UnitEnum { rename_all, validate, variants } => {
                let s = match doc {
                    Doc::Str(s) => s,
                    other => return self.kind_err(out, other, &[Kind::String], loc),
                };
                let names: Vec<String> =
                    variants.iter().map(|v| effective_key(&v.ident, &v.rename, *rename_all)).collect();
                match names.iter().position(|n| n == s) {
                    Some(p) => {
                        let value = MVal::Variant {
                            name: t.name.clone(),
                            variant: variants[p].ident.clone(),
                            fields: vec![],
                        };
                        self.validate(validate, value, loc, out)
                    }
                    None => {
                        self.report(out, ExpClass::UnknownValue { value: s.clone(), accepted: names }, loc);
                        None
                    }
                }
            }
            TypeKind::Wrapper { src, fn_id, fallible, validate, .. } => {
                let inner = self.interp(src, doc, loc, out)?;
                let failed = *fallible && self.cb_fails(*fn_id, &inner);
                out.calls.push(ExpCall {
                    fn_id: *fn_id,
                    stage: if *fallible { CallStage::WrapTryFrom } else { CallStage::WrapFrom },
                    arg: Some(inner.clone()),
                    loc: None,
                    key: None,
                    accepted: None,
                    failed,
                });
                if failed {
                    self.report(out, ExpClass::Foreign { token: user_token(*fn_id, inner.hash()) }, loc);
                    return None;
                }
                let value = MVal::Conv { fn_id: *fn_id, inner: Box::new(inner) };
                self.validate(validate, value, loc, out)
            }
        }
    }

    fn fields(
        &self,
        fields: &'a [FieldDef],
        rename_all: Option<RenameAll>,
        deny: &Deny,
        members: &[&(String, Doc)],
        loc: &Path,
        out: &mut Expect,
    ) -> Option<Vec<(String, MVal)>> {
        let reports_before = out.reports.len();
        let mut states: Vec<FState> = fields
            .iter()
            .map(|f| match (&f.default, f.skip) {
                (Dflt::Expr(t), _) => FState::Some(MVal::DfltExpr(*t)),
                (Dflt::Trait, _) | (Dflt::No, true) => FState::Some(trait_default(&f.ty)),
                (Dflt::No, false) => FState::Missing,
            })
            .collect();
        let accepted = accepted_keys(fields, rename_all);
        for (k, v) in members.iter().map(|m| (&m.0, &m.1)) {
            let hit = fields.iter().position(|f| !f.skip && f.key(rename_all) == *k);
            match hit {
                Some(fi) => {
                    let f = &fields[fi];
                    let c = push(loc, Step::Key(k.clone()));
                    out.decodes.push(c.clone());
                    // the field's value (and a failing try_from) is reported to the field's
                    // error type; everything else of this container to the container's
                    let outer_ty = cur_ty();
                    let field_ty = if f.error_b { 1 } else { outer_ty };
                    TY.with(|t| t.set(field_ty));
                    let interpreted = self.interp(f.src_ty(), v, &c, out);
                    TY.with(|t| t.set(outer_ty));
                    match interpreted {
                        None => {
                            states[fi] = FState::Err;
                            out.handovers.push(c);
                        }
                        Some(val) => match &f.conv {
                            Conv::No => states[fi] = FState::Some(val),
                            Conv::From { fn_id, .. } => {
                                out.calls.push(ExpCall {
                                    fn_id: *fn_id,
                                    stage: CallStage::From,
                                    arg: Some(val.clone()),
                                    loc: None,
                                    key: None,
                                    accepted: None,
                                    failed: false,
                                });
                                states[fi] = FState::Some(MVal::Conv { fn_id: *fn_id, inner: Box::new(val) });
                            }
                            Conv::TryFrom { fn_id, .. } => {
                                let failed = self.cb_fails(*fn_id, &val);
                                out.calls.push(ExpCall {
                                    fn_id: *fn_id,
                                    stage: CallStage::TryFrom,
                                    arg: Some(val.clone()),
                                    loc: None,
                                    key: None,
                                    accepted: None,
                                    failed,
                                });
                                if failed {
                                    TY.with(|t| t.set(field_ty));
                                    self.report(out, ExpClass::Foreign { token: user_token(*fn_id, val.hash()) }, &c);
                                    TY.with(|t| t.set(outer_ty));
                                    states[fi] = FState::Err;
                                    out.handovers.push(c);
                                } else {
                                    states[fi] = FState::Some(MVal::Conv { fn_id: *fn_id, inner: Box::new(val) });
                                }
                            }
                        },
                    }
                }
                None => match deny {
                    Deny::No => {}
                    Deny::Default => {
                        out.unknown_denied += 1;
                        self.report(out, ExpClass::UnknownKey { key: k.clone(), accepted: accepted.clone() }, loc);
                    }
                    Deny::Custom(n) => {
                        out.unknown_denied += 1;
                        out.calls.push(ExpCall {
                            fn_id: *n,
                            stage: CallStage::Unknown,
                            arg: None,
                            loc: Some(loc.clone()),
                            key: Some(k.clone()),
                            accepted: Some(accepted.clone()),
                            failed: false,
                        });
                        self.report(out, ExpClass::UnknownKey { key: k.clone(), accepted: accepted.clone() }, loc);
                    }
                    Deny::CustomUser(n) => {
                        out.unknown_denied += 1;
                        out.calls.push(ExpCall {
                            fn_id: *n,
                            stage: CallStage::Unknown,
                            arg: None,
                            loc: Some(loc.clone()),
                            key: Some(k.clone()),
                            accepted: Some(accepted.clone()),
                            failed: false,
                        });
                        self.report(out, ExpClass::Foreign { token: user_token(*n, crate::rng::hash_str(k)) }, loc);
                    }
                },
            }
        }
        for (fi, f) in fields.iter().enumerate() {
            if matches!(states[fi], FState::Missing) {
                let key = f.key(rename_all);
                match f.missing_fn {
                    None => self.report(out, ExpClass::Missing { field: key }, loc),
                    Some(n) => {
                        out.calls.push(ExpCall {
                            fn_id: n,
                            stage: CallStage::Missing,
                            arg: None,
                            loc: Some(loc.clone()),
                            key: Some(key.clone()),
                            accepted: None,
                            failed: false,
                        });
                        if f.missing_user {
                            self.report(out, ExpClass::Foreign { token: user_token(n, crate::rng::hash_str(&key)) }, loc);
                        } else {
                            self.report(
                                out,
                                ExpClass::Unexpected { contains: Some(format!("missing_cb#{n}:{key}")) },
                                loc,
                            );
                        }
                    }
                }
            }
        }
        if out.reports.len() != reports_before {
            return None;
        }
        let mut vals = vec![];
        for (fi, f) in fields.iter().enumerate() {
            let v = match std::mem::replace(&mut states[fi], FState::Missing) {
                FState::Some(v) => v,
                _ => unreachable!("no report yet a field without value"),
            };
            let v = match f.map {
                None => v,
                Some(n) => {
                    out.calls.push(ExpCall {
                        fn_id: n,
                        stage: CallStage::Map,
                        arg: Some(v.clone()),
                        loc: None,
                        key: None,
                        accepted: None,
                        failed: false,
                    });
                    MVal::Conv { fn_id: n, inner: Box::new(v) }
                }
            };
            vals.push((f.ident.clone(), v));
        }
        Some(vals)
    }
}
