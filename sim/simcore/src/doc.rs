//! The harness's own document and path types. A `Doc` is what the simulated value source holds;
//! objects keep an explicit member order (the delivery order) and may hold duplicate keys.

use crate::rng::Fnv;
use std::fmt::Write;

#[derive(Clone, Debug, PartialEq, Eq, Hash, PartialOrd, Ord)]
pub enum Step {
    Key(String),
    Index(usize),
}

pub type Path = Vec<Step>;

pub fn path_str(p: &[Step]) -> String {
    let mut s = String::from("$");
    for st in p {
        match st {
            Step::Key(k) => {
                s.push('.');
                s.push_str(k);
            }
            Step::Index(i) => {
                let _ = write!(s, "[{i}]");
            }
        }
    }
    s
}

pub fn is_prefix(a: &[Step], b: &[Step]) -> bool {
    a.len() <= b.len() && a == &b[..a.len()]
}

#[derive(Clone, Debug)]
pub enum Doc {
    Null,
    Bool(bool),
    Int(u64),
    Neg(i64),
    Float(f64),
    Str(String),
    Seq(Vec<Doc>),
    Map(Vec<(String, Doc)>),
}

impl PartialEq for Doc {
    fn eq(&self, other: &Doc) -> bool {
        match (self, other) {
            (Doc::Null, Doc::Null) => true,
            (Doc::Bool(a), Doc::Bool(b)) => a == b,
            (Doc::Int(a), Doc::Int(b)) => a == b,
            (Doc::Neg(a), Doc::Neg(b)) => a == b,
            (Doc::Float(a), Doc::Float(b)) => a.to_bits() == b.to_bits(),
            (Doc::Str(a), Doc::Str(b)) => a == b,
            (Doc::Seq(a), Doc::Seq(b)) => a == b,
            (Doc::Map(a), Doc::Map(b)) => a == b,
            _ => false,
        }
    }
}
impl Eq for Doc {}

#[derive(Clone, Copy, Debug, PartialEq, Eq, Hash, PartialOrd, Ord)]
pub enum Kind {
    Null,
    Boolean,
    Integer,
    NegativeInteger,
    Float,
    String,
    Sequence,
    Map,
}

impl Doc {
    pub fn kind(&self) -> Kind {
        match self {
            Doc::Null => Kind::Null,
            Doc::Bool(_) => Kind::Boolean,
            Doc::Int(_) => Kind::Integer,
            Doc::Neg(_) => Kind::NegativeInteger,
            Doc::Float(_) => Kind::Float,
            Doc::Str(_) => Kind::String,
            Doc::Seq(_) => Kind::Sequence,
            Doc::Map(_) => Kind::Map,
        }
    }

    pub fn is_scalar(&self) -> bool {
        !matches!(self, Doc::Seq(_) | Doc::Map(_))
    }

    /// Number of nodes.
    pub fn size(&self) -> usize {
        match self {
            Doc::Seq(v) => 1 + v.iter().map(|d| d.size()).sum::<usize>(),
            Doc::Map(m) => 1 + m.iter().map(|(_, d)| d.size()).sum::<usize>(),
            _ => 1,
        }
    }

    pub fn depth(&self) -> usize {
        match self {
            Doc::Seq(v) => 1 + v.iter().map(|d| d.depth()).max().unwrap_or(0),
            Doc::Map(m) => 1 + m.iter().map(|(_, d)| d.depth()).max().unwrap_or(0),
            _ => 1,
        }
    }

    pub fn has_dup_keys(&self) -> bool {
        match self {
            Doc::Seq(v) => v.iter().any(|d| d.has_dup_keys()),
            Doc::Map(m) => {
                for (i, (k, d)) in m.iter().enumerate() {
                    if d.has_dup_keys() {
                        return true;
                    }
                    if m[..i].iter().any(|(k2, _)| k2 == k) {
                        return true;
                    }
                }
                false
            }
            _ => false,
        }
    }

    /// True when serde_json can hold exactly this document (finite floats, proper negatives,
    /// no duplicate keys).
    pub fn json_representable(&self) -> bool {
        match self {
            Doc::Float(f) => f.is_finite(),
            Doc::Neg(n) => *n < 0,
            Doc::Seq(v) => v.iter().all(|d| d.json_representable()),
            Doc::Map(m) => !self.has_dup_keys() && m.iter().all(|(_, d)| d.json_representable()),
            _ => true,
        }
    }

    /// Resolve a path; with duplicate keys the first member wins (callers avoid duplicates
    /// where positions must be unambiguous).
    pub fn resolve(&self, path: &[Step]) -> Option<&Doc> {
        let mut cur = self;
        for st in path {
            cur = match (st, cur) {
                (Step::Key(k), Doc::Map(m)) => &m.iter().find(|(k2, _)| k2 == k)?.1,
                (Step::Index(i), Doc::Seq(v)) => v.get(*i)?,
                _ => return None,
            };
        }
        Some(cur)
    }

    /// every value the path can denote (several when objects repeat a key)
    pub fn resolve_all(&self, path: &[Step]) -> Vec<&Doc> {
        let mut cur: Vec<&Doc> = vec![self];
        for st in path {
            let mut next: Vec<&Doc> = vec![];
            for d in cur {
                match (st, d) {
                    (Step::Key(k), Doc::Map(m)) => next.extend(m.iter().filter(|(k2, _)| k2 == k).map(|(_, v)| v)),
                    (Step::Index(i), Doc::Seq(v)) => next.extend(v.get(*i)),
                    _ => {}
                }
            }
            cur = next;
        }
        cur
    }

    pub fn resolve_mut(&mut self, path: &[Step]) -> Option<&mut Doc> {
        let mut cur = self;
        for st in path {
            cur = match (st, cur) {
                (Step::Key(k), Doc::Map(m)) => &mut m.iter_mut().find(|(k2, _)| k2 == k)?.1,
                (Step::Index(i), Doc::Seq(v)) => v.get_mut(*i)?,
                _ => return None,
            };
        }
        Some(cur)
    }

    fn hash_into(&self, f: &mut Fnv, ordered: bool) {
        match self {
            Doc::Null => f.u64(0),
            Doc::Bool(b) => {
                f.u64(1);
                f.u64(*b as u64)
            }
            Doc::Int(x) => {
                f.u64(2);
                f.u64(*x)
            }
            Doc::Neg(x) => {
                f.u64(3);
                f.u64(*x as u64)
            }
            Doc::Float(x) => {
                f.u64(4);
                f.u64(x.to_bits())
            }
            Doc::Str(s) => {
                f.u64(5);
                f.str(s)
            }
            Doc::Seq(v) => {
                f.u64(6);
                f.u64(v.len() as u64);
                for d in v {
                    d.hash_into(f, ordered);
                }
            }
            Doc::Map(m) => {
                f.u64(7);
                f.u64(m.len() as u64);
                if ordered {
                    for (k, d) in m {
                        f.str(k);
                        d.hash_into(f, ordered);
                    }
                } else {
                    // order-insensitive: combine member hashes commutatively
                    let mut acc: u64 = 0;
                    for (k, d) in m {
                        let mut g = Fnv::new();
                        g.str(k);
                        d.hash_into(&mut g, ordered);
                        acc = acc.wrapping_add(g.finish());
                    }
                    f.u64(acc);
                }
            }
        }
    }

    /// Order-insensitive digest: the same document delivered in another member order has the
    /// same digest (needed to compare runs that differ only in delivery order).
    pub fn digest(&self) -> u64 {
        let mut f = Fnv::new();
        self.hash_into(&mut f, false);
        f.finish()
    }

    pub fn digest_ordered(&self) -> u64 {
        let mut f = Fnv::new();
        self.hash_into(&mut f, true);
        f.finish()
    }

    /// Equality up to member order (no duplicate keys assumed).
    pub fn same_unordered(&self, other: &Doc) -> bool {
        match (self, other) {
            (Doc::Seq(a), Doc::Seq(b)) => {
                a.len() == b.len() && a.iter().zip(b).all(|(x, y)| x.same_unordered(y))
            }
            (Doc::Map(a), Doc::Map(b)) => {
                if a.len() != b.len() {
                    return false;
                }
                let mut used = vec![false; b.len()];
                'outer: for (k, x) in a {
                    for (j, (k2, y)) in b.iter().enumerate() {
                        if !used[j] && k == k2 && x.same_unordered(y) {
                            used[j] = true;
                            continue 'outer;
                        }
                    }
                    return false;
                }
                true
            }
            (a, b) => a == b,
        }
    }

    /// Deterministic JSON-like rendering (member order kept; non-finite floats spelled out).
    pub fn render(&self) -> String {
        let mut s = String::new();
        self.render_into(&mut s);
        s
    }

    fn render_into(&self, s: &mut String) {
        match self {
            Doc::Null => s.push_str("null"),
            Doc::Bool(b) => {
                let _ = write!(s, "{b}");
            }
            Doc::Int(x) => {
                let _ = write!(s, "{x}");
            }
            Doc::Neg(x) => {
                let _ = write!(s, "{x}");
                if *x >= 0 {
                    s.push_str("n");
                }
            }
            Doc::Float(x) => {
                if x.is_finite() {
                    let _ = write!(s, "{x:?}");
                } else {
                    let _ = write!(s, "\"{x:?}\"f");
                }
            }
            Doc::Str(x) => render_str(x, s),
            Doc::Seq(v) => {
                s.push('[');
                for (i, d) in v.iter().enumerate() {
                    if i > 0 {
                        s.push(',');
                    }
                    d.render_into(s);
                }
                s.push(']');
            }
            Doc::Map(m) => {
                s.push('{');
                for (i, (k, d)) in m.iter().enumerate() {
                    if i > 0 {
                        s.push(',');
                    }
                    render_str(k, s);
                    s.push(':');
                    d.render_into(s);
                }
                s.push('}');
            }
        }
    }

    /// Canonical form: members sorted by key, recursively.
    pub fn sorted(&self) -> Doc {
        match self {
            Doc::Seq(v) => Doc::Seq(v.iter().map(|d| d.sorted()).collect()),
            Doc::Map(m) => {
                let mut m2: Vec<(String, Doc)> =
                    m.iter().map(|(k, d)| (k.clone(), d.sorted())).collect();
                m2.sort_by(|a, b| a.0.cmp(&b.0));
                Doc::Map(m2)
            }
            d => d.clone(),
        }
    }

    pub fn to_json(&self) -> serde_json::Value {
        use serde_json::Value as J;
        match self {
            Doc::Null => J::Null,
            Doc::Bool(b) => J::Bool(*b),
            Doc::Int(x) => J::Number((*x).into()),
            Doc::Neg(x) => J::Number((*x).into()),
            Doc::Float(x) => serde_json::Number::from_f64(*x)
                .map(J::Number)
                .unwrap_or(J::Null),
            Doc::Str(s) => J::String(s.clone()),
            Doc::Seq(v) => J::Array(v.iter().map(|d| d.to_json()).collect()),
            Doc::Map(m) => J::Object(m.iter().map(|(k, d)| (k.clone(), d.to_json())).collect()),
        }
    }

    /// Read a serde_json value by matching on its own representation (independent of deserr).
    pub fn from_json(j: &serde_json::Value) -> Doc {
        use serde_json::Value as J;
        match j {
            J::Null => Doc::Null,
            J::Bool(b) => Doc::Bool(*b),
            J::Number(n) => {
                if let Some(u) = n.as_u64() {
                    Doc::Int(u)
                } else if let Some(i) = n.as_i64() {
                    Doc::Neg(i)
                } else {
                    Doc::Float(n.as_f64().unwrap_or(f64::NAN))
                }
            }
            J::String(s) => Doc::Str(s.clone()),
            J::Array(v) => Doc::Seq(v.iter().map(Doc::from_json).collect()),
            J::Object(m) => Doc::Map(m.iter().map(|(k, v)| (k.clone(), Doc::from_json(v))).collect()),
        }
    }

    /// Encoding used in replay files: keeps member order, duplicates and exotic numbers.
    pub fn to_replay(&self) -> serde_json::Value {
        use serde_json::json;
        match self {
            Doc::Null => json!(null),
            Doc::Bool(b) => json!(b),
            Doc::Int(x) => json!({"int": x.to_string()}),
            Doc::Neg(x) => json!({"neg": x.to_string()}),
            Doc::Float(x) => json!({"float_bits": x.to_bits().to_string(), "float": format!("{x:?}")}),
            Doc::Str(s) => json!(s),
            Doc::Seq(v) => serde_json::Value::Array(v.iter().map(|d| d.to_replay()).collect()),
            Doc::Map(m) => json!({"members": m.iter().map(|(k, d)| json!([k, d.to_replay()])).collect::<Vec<_>>()}),
        }
    }

    pub fn from_replay(j: &serde_json::Value) -> Option<Doc> {
        use serde_json::Value as J;
        Some(match j {
            J::Null => Doc::Null,
            J::Bool(b) => Doc::Bool(*b),
            J::String(s) => Doc::Str(s.clone()),
            J::Array(v) => Doc::Seq(v.iter().map(Doc::from_replay).collect::<Option<Vec<_>>>()?),
            J::Object(o) => {
                if let Some(x) = o.get("int") {
                    Doc::Int(x.as_str()?.parse().ok()?)
                } else if let Some(x) = o.get("neg") {
                    Doc::Neg(x.as_str()?.parse().ok()?)
                } else if let Some(x) = o.get("float_bits") {
                    Doc::Float(f64::from_bits(x.as_str()?.parse().ok()?))
                } else if let Some(x) = o.get("members") {
                    let mut m = vec![];
                    for e in x.as_array()? {
                        let e = e.as_array()?;
                        m.push((e.first()?.as_str()?.to_string(), Doc::from_replay(e.get(1)?)?));
                    }
                    Doc::Map(m)
                } else {
                    return None;
                }
            }
            J::Number(_) => return None,
        })
    }
}

fn render_str(x: &str, s: &mut String) {
    s.push('"');
    for c in x.chars() {
        match c {
            '"' => s.push_str("\\\""),
            '\\' => s.push_str("\\\\"),
            '\n' => s.push_str("\\n"),
            c if (c as u32) < 0x20 => {
                let _ = write!(s, "\\u{:04x}", c as u32);
            }
            c => s.push(c),
        }
    }
    s.push('"');
}

pub fn path_to_json(p: &[Step]) -> serde_json::Value {
    serde_json::Value::Array(
        p.iter()
            .map(|s| match s {
                Step::Key(k) => serde_json::Value::String(k.clone()),
                Step::Index(i) => serde_json::Value::Number((*i as u64).into()),
            })
            .collect(),
    )
}

pub fn path_from_json(j: &serde_json::Value) -> Option<Path> {
    j.as_array()?
        .iter()
        .map(|s| match s {
            serde_json::Value::String(k) => Some(Step::Key(k.clone())),
            serde_json::Value::Number(n) => Some(Step::Index(n.as_u64()? as usize)),
            _ => None,
        })
        .collect()
}
