//! Scenario generation for engine B: requests, bodies, headers, configuration knobs and body
//! stream scripts, all drawn from one PRNG stream per scenario index.

use simcore::rng::{mix, Rng};

#[derive(Clone, Debug, PartialEq)]
pub enum Step {
    Chunk(Vec<u8>),
    /// the stream returns Pending; the wake-up fires after this many executor steps (0 = at once)
    Pending(u32),
    /// stream error (actix: PayloadError kind; axum: io error)
    Error(u8),
    /// axum only: a trailers frame (legal after the data frames)
    Trailers,
    End,
}

#[derive(Clone, Copy, Debug, PartialEq, Eq)]
pub enum Framework {
    ActixJson,
    ActixQuery,
    AxumJson,
}

#[derive(Clone, Copy, Debug, PartialEq, Eq)]
pub enum Target {
    Item,
    VecItem,
    Shape,
    MapU16,
    Json,
    Query,
}

#[derive(Clone, Copy, Debug, PartialEq, Eq)]
pub enum ErrTy {
    JsonError,
    Tok,
}

#[derive(Clone, Debug)]
pub struct ReqSpec {
    pub framework: Framework,
    pub target: Target,
    pub err: ErrTy,
    pub body: Vec<u8>,
    pub body_class: String,
    pub content_type: Option<String>,
    pub content_length: Option<String>,
    pub script: Vec<Step>,
    /// actix JsonConfig knobs
    pub limit: Option<usize>,
    pub ctype_required: bool,
    pub custom_predicate: bool,
    pub custom_handler: bool,
    /// axum DefaultBodyLimit
    pub axum_limit: Option<usize>,
    /// query string (ActixQuery)
    pub query: String,
    /// query extractor entry point: from_query (false) or from_request (true)
    pub via_request: bool,
    /// ActixQuery through FromRequest only: the request's URI is rewritten to this query string
    /// (as a path-normalising middleware would) and the extraction is made a second time
    pub query2: Option<String>,
    /// request trimmings that are none of the extractor's business: bit 0 = an
    /// `Accept: application/json` header, bit 1 = the request was matched by a route with a dynamic
    /// segment (`uid = movies`), bit 2 = the body extractor is handed `Payload::None` (a body-less
    /// request, or a second body extractor in one handler)
    pub extras: u8,
}

impl ReqSpec {
    /// reset the configuration knobs to their defaults; true if anything changed
    pub fn plain_config(&mut self) -> bool {
        let changed = self.limit.is_some() || !self.ctype_required || self.custom_predicate || self.custom_handler || self.axum_limit.is_some();
        self.limit = None;
        self.ctype_required = true;
        self.custom_predicate = false;
        self.custom_handler = false;
        self.axum_limit = None;
        changed
    }
}

#[derive(Clone, Debug)]
pub struct Scenario {
    pub seed: u64,
    pub index: u64,
    pub sched_seed: u64,
    pub requests: Vec<ReqSpec>,
    pub p_spurious_pm: u32,
    pub p_drop_pm: u32,
    /// forced scheduler choices (replay); empty = draw from sched_seed
    pub choices: Vec<u32>,
}

fn hex(b: &[u8]) -> String {
    b.iter().map(|x| format!("{x:02x}")).collect()
}
fn unhex(s: &str) -> Option<Vec<u8>> {
    if s.len() % 2 != 0 {
        return None;
    }
    (0..s.len()).step_by(2).map(|i| u8::from_str_radix(&s[i..i + 2], 16).ok()).collect()
}

fn step_json(s: &Step) -> serde_json::Value {
    match s {
        Step::Chunk(b) => serde_json::json!({"chunk_hex": hex(b), "text": String::from_utf8_lossy(b)}),
        Step::Pending(n) => serde_json::json!({"pending_wake_after_steps": n}),
        Step::Error(k) => serde_json::json!({"error": k}),
        Step::Trailers => serde_json::json!("trailers"),
        Step::End => serde_json::json!("end"),
    }
}
fn step_from(j: &serde_json::Value) -> Option<Step> {
    if j.as_str() == Some("end") {
        return Some(Step::End);
    }
    if j.as_str() == Some("trailers") {
        return Some(Step::Trailers);
    }
    if let Some(h) = j.get("chunk_hex") {
        return Some(Step::Chunk(unhex(h.as_str()?)?));
    }
    if let Some(n) = j.get("pending_wake_after_steps") {
        return Some(Step::Pending(n.as_u64()? as u32));
    }
    if let Some(k) = j.get("error") {
        return Some(Step::Error(k.as_u64()? as u8));
    }
    None
}

impl Scenario {
    pub fn to_json(&self) -> serde_json::Value {
        serde_json::json!({
            "seed": self.seed.to_string(),
            "index": self.index,
            "sched_seed": self.sched_seed.to_string(),
            "p_spurious_pm": self.p_spurious_pm,
            "p_drop_pm": self.p_drop_pm,
            "requests": self.requests.iter().map(|r| serde_json::json!({
                "framework": format!("{:?}", r.framework),
                "target": format!("{:?}", r.target),
                "error_type": format!("{:?}", r.err),
                "body_hex": hex(&r.body),
                "body_text": String::from_utf8_lossy(&r.body),
                "body_class": r.body_class,
                "content_type": r.content_type,
                "content_length": r.content_length,
                "stream_script": r.script.iter().map(step_json).collect::<Vec<_>>(),
                "limit": r.limit,
                "ctype_required": r.ctype_required,
                "custom_predicate": r.custom_predicate,
                "custom_handler": r.custom_handler,
                "axum_limit": r.axum_limit,
                "query": r.query,
                "via_request": r.via_request,
                "query2": r.query2,
                "extras": r.extras,
            })).collect::<Vec<_>>(),
        })
    }

    pub fn from_json(j: &serde_json::Value) -> Option<Scenario> {
        let mut requests = vec![];
        for r in j.get("requests")?.as_array()? {
            let framework = match r.get("framework")?.as_str()? {
                "ActixJson" => Framework::ActixJson,
                "ActixQuery" => Framework::ActixQuery,
                "AxumJson" => Framework::AxumJson,
                _ => return None,
            };
            let target = match r.get("target")?.as_str()? {
                "Item" => Target::Item,
                "VecItem" => Target::VecItem,
                "Shape" => Target::Shape,
                "MapU16" => Target::MapU16,
                "Json" => Target::Json,
                "Query" => Target::Query,
                _ => return None,
            };
            let err = match r.get("error_type")?.as_str()? {
                "JsonError" => ErrTy::JsonError,
                "Tok" => ErrTy::Tok,
                _ => return None,
            };
            requests.push(ReqSpec {
                framework,
                target,
                err,
                body: unhex(r.get("body_hex")?.as_str()?)?,
                body_class: r.get("body_class")?.as_str()?.to_string(),
                content_type: r.get("content_type")?.as_str().map(|s| s.to_string()),
                content_length: r.get("content_length")?.as_str().map(|s| s.to_string()),
                script: r.get("stream_script")?.as_array()?.iter().map(step_from).collect::<Option<Vec<_>>>()?,
                limit: r.get("limit")?.as_u64().map(|x| x as usize),
                ctype_required: r.get("ctype_required")?.as_bool()?,
                custom_predicate: r.get("custom_predicate")?.as_bool()?,
                custom_handler: r.get("custom_handler")?.as_bool()?,
                axum_limit: r.get("axum_limit")?.as_u64().map(|x| x as usize),
                query: r.get("query")?.as_str()?.to_string(),
                via_request: r.get("via_request")?.as_bool()?,
                query2: r.get("query2").and_then(|q| q.as_str()).map(|q| q.to_string()),
                extras: r.get("extras").and_then(|x| x.as_u64()).unwrap_or(0) as u8,
            });
        }
        Some(Scenario {
            seed: j.get("seed")?.as_str()?.parse().ok()?,
            index: j.get("index")?.as_u64()?,
            sched_seed: j.get("sched_seed")?.as_str()?.parse().ok()?,
            requests,
            p_spurious_pm: j.get("p_spurious_pm")?.as_u64()? as u32,
            p_drop_pm: j.get("p_drop_pm")?.as_u64()? as u32,
            choices: vec![],
        })
    }
}

pub fn merge_chunks(script: &mut Vec<Step>) -> bool {
    let mut out: Vec<Step> = vec![];
    let mut changed = false;
    for s in script.drain(..) {
        match (out.last_mut(), s) {
            (Some(Step::Chunk(a)), Step::Chunk(b)) => {
                a.extend(b);
                changed = true;
            }
            (_, s) => out.push(s),
        }
    }
    *script = out;
    changed
}

// --- documents -----------------------------------------------------------------------------------

use serde_json::{json, Value as J};

const NAMES: [&str; 6] = ["bork", "jorts", "héllo", "a\"b", "", "line\nbreak"];

fn gen_inner(rng: &mut Rng) -> J {
    let mut m = serde_json::Map::new();
    m.insert("x".into(), if rng.chance(1, 2) { json!(rng.below(100) as f64 / 4.0) } else { json!(rng.below(100)) });
    if rng.chance(1, 2) {
        m.insert("y".into(), if rng.chance(1, 3) { J::Null } else { json!(*rng.pick(&NAMES)) });
    }
    J::Object(m)
}

fn gen_item(rng: &mut Rng) -> J {
    let mut m = serde_json::Map::new();
    m.insert("id".into(), json!(rng.below(100000)));
    m.insert("displayName".into(), json!(*rng.pick(&NAMES)));
    if rng.chance(2, 3) {
        let n = rng.below(4);
        m.insert("tags".into(), J::Array((0..n).map(|_| json!(*rng.pick(&NAMES))).collect()));
    }
    m.insert("kind".into(), json!(*rng.pick(&["small", "large"])));
    if rng.chance(1, 2) {
        m.insert("inner".into(), if rng.chance(1, 4) { J::Null } else { gen_inner(rng) });
    }
    m.insert("pair".into(), json!([rng.below(250) as i64 - 125, rng.chance(1, 2)]));
    J::Object(m)
}

fn gen_shape(rng: &mut Rng) -> J {
    match rng.below(3) {
        0 => json!({"type": "Circle", "r": rng.below(256)}),
        1 => json!({"w": rng.below(256), "type": "Rect", "h": rng.below(256)}),
        _ => json!({"type": "Unit"}),
    }
}

fn gen_valid(t: Target, rng: &mut Rng) -> J {
    match t {
        Target::Item => gen_item(rng),
        Target::VecItem => J::Array((0..rng.below(4)).map(|_| gen_item(rng)).collect()),
        Target::Shape => gen_shape(rng),
        Target::MapU16 => {
            let mut m = serde_json::Map::new();
            for _ in 0..rng.below(5) {
                m.insert(rng.pick(&NAMES).to_string(), json!(rng.below(65536)));
            }
            J::Object(m)
        }
        Target::Json | Target::Query => {
            let d = simcore::docgen::random_doc(rng, 3);
            d.to_json()
        }
    }
}

/// ill-typed: replace / delete / add somewhere
fn mutate(v: &mut J, rng: &mut Rng, budget: &mut u32) {
    if *budget == 0 {
        return;
    }
    let hit = rng.chance(1, 5);
    if hit {
        *budget -= 1;
        *v = match rng.below(7) {
            0 => J::Null,
            1 => json!(true),
            2 => json!(-7),
            3 => json!(1e40),
            4 => json!(*rng.pick(&["oops", "oops", "sm\nall", "x\u{0}y", "tab\there"])),
            5 => json!([]),
            _ => json!({"unexpected": 1}),
        };
        return;
    }
    match v {
        J::Array(a) => {
            for x in a.iter_mut() {
                mutate(x, rng, budget);
            }
        }
        J::Object(m) => {
            let keys: Vec<String> = m.keys().cloned().collect();
            for k in &keys {
                if rng.chance(1, 8) && *budget > 0 {
                    m.remove(k);
                    *budget -= 1;
                } else if let Some(x) = m.get_mut(k) {
                    mutate(x, rng, budget);
                }
            }
            if rng.chance(1, 8) && *budget > 0 {
                m.insert(rng.pick(&["extra", "Id", "displayname", "Type", "na\tme", "x\u{0}y", "del\u{7f}", "sm\nall", "caf\u{e9}\u{1b}[0m"]).to_string(), json!(1));
                *budget -= 1;
            }
        }
        _ => {}
    }
}

fn cut_script(body: &[u8], rng: &mut Rng, c: &mut dyn FnMut(&str)) -> Vec<Step> {
    let mut script = vec![];
    let style = rng.below(5);
    let mut pos = 0;
    if rng.chance(1, 10) {
        script.push(Step::Chunk(vec![]));
        c("fault_empty_chunk");
    }
    // a body of megabytes is cut coarsely (at most a few hundred chunks): what it is there for is
    // the size limits, and a million two-byte chunks would only burn the step budget
    let floor = if body.len() > 64 * 1024 { body.len() / 256 } else { 0 };
    while pos < body.len() {
        let rem = body.len() - pos;
        let n = match style {
            0 => rem,
            1 => 1,
            2 => 1 + rng.below(rem.min(8)),
            3 => 1 + rng.below(rem.min(64)),
            _ => 1 + rng.below(rem),
        };
        let n = n.max(floor.min(rem));
        script.push(Step::Chunk(body[pos..pos + n].to_vec()));
        pos += n;
        if pos < body.len() {
            c("fault_chunk_split");
            if rng.chance(1, 4) {
                script.push(Step::Pending(rng.below(6) as u32));
                c("fault_pending");
            }
            if rng.chance(1, 20) {
                script.push(Step::Chunk(vec![]));
                c("fault_empty_chunk");
            }
        }
    }
    if rng.chance(1, 5) {
        script.insert(0, Step::Pending(rng.below(4) as u32));
        c("fault_pending");
    }
    if rng.chance(1, 6) {
        script.push(Step::Pending(rng.below(4) as u32));
        c("fault_pending_before_end");
    }
    script.push(Step::End);
    script
}

pub fn generate(seed: u64, index: u64, thorough: bool) -> Scenario {
    let mut rng = Rng::new(mix(seed, 0xB0D1, index));
    let n_req = *rng.pick(&[1usize, 1, 2, 2, 3, 4]);
    let p_spurious_pm = *rng.pick(&[0u32, 0, 50, 200]);
    let p_drop_pm = *rng.pick(&[0u32, 0, 0, 20]);
    let sched_seed = rng.next();
    let mut requests = vec![];
    let mut sink = |_: &str| {};
    for _ in 0..n_req {
        let framework = *rng.pick(&[Framework::ActixJson, Framework::ActixJson, Framework::AxumJson, Framework::AxumJson, Framework::ActixQuery]);
        let err = *rng.pick(&[ErrTy::JsonError, ErrTy::JsonError, ErrTy::Tok]);
        if framework == Framework::ActixQuery {
            // query strings: repeated keys, percent-encoding, malformed escapes, empty
            let parts = ["q=hello", "q=a%20b", "limit=10", "page=2", "q=%E9", "q=%zz", "limit=", "=x", "unknown=1", "q=1&q=2", "q=h%C3%A9llo", "limit=10&limit=20", "a[b]=c", "+q=+x+", "?q=doggo", "?", "q=a?b", "&", "q", "q==", "%71=y", "q=x;limit=1", "page=%32", "attributes[]=title", "q[]=x", "[]=1", "limit%5B%5D=3", "q=+doggo", "limit=+5", "page=+2+", "q=%2Bplus", "q=a+b=+c"];
            let k = rng.below(4);
            let mut q: Vec<&str> = vec![];
            for _ in 0..k {
                q.push(*rng.pick(&parts));
            }
            requests.push(ReqSpec {
                framework,
                target: Target::Query,
                err,
                body: vec![],
                body_class: "query".into(),
                content_type: None,
                content_length: None,
                script: vec![Step::End],
                limit: None,
                ctype_required: true,
                custom_predicate: false,
                custom_handler: false,
                axum_limit: None,
                query: q.join("&"),
                via_request: rng.chance(1, 2),
                extras: if rng.chance(1, 3) { rng.below(4) as u8 } else { 0 },
                query2: if rng.chance(1, 3) {
                    let k2 = rng.below(3);
                    let mut q2: Vec<&str> = vec![];
                    for _ in 0..k2 {
                        q2.push(*rng.pick(&parts));
                    }
                    Some(q2.join("&"))
                } else {
                    None
                },
            });
            continue;
        }
        let target = *rng.pick(&[Target::Item, Target::Item, Target::VecItem, Target::Shape, Target::MapU16, Target::Json]);
        let mut doc = gen_valid(target, &mut rng);
        let class_roll = rng.below(20);
        let mut body_class = "valid";
        if class_roll >= 8 && class_roll < 13 {
            let mut budget = 1 + rng.below(3) as u32;
            mutate(&mut doc, &mut rng, &mut budget);
            body_class = "ill-typed";
        }
        let mut body = serde_json::to_vec(&doc).unwrap();
        if rng.chance(1, 6) {
            body = serde_json::to_vec_pretty(&doc).unwrap();
        }
        match class_roll {
            13 => {
                body.truncate(rng.below(body.len() + 1));
                body_class = "malformed-truncated";
            }
            14 => {
                let at = rng.below(body.len() + 1);
                body.insert(at, *rng.pick(&[b'}', b'"', b',', 0xff, b'x', 0x00]));
                body_class = "malformed-garbage-byte";
            }
            15 => {
                body.extend_from_slice(*rng.pick(&[&b" {}"[..], b"x", b"\n\n", b",", b"null"]));
                body_class = "trailing-bytes";
            }
            16 => {
                body.clear();
                body_class = "empty";
            }
            19 if rng.chance(1, 2) => {
                // nesting right at the parser's limit (128): 125..=128 arrays around a value
                let depth = 125 + rng.below(4);
                let inner = if rng.chance(1, 2) { "7" } else { "" };
                body = format!("{}{}{}", "[".repeat(depth), inner, "]".repeat(depth)).into_bytes();
                body_class = "deeply-nested";
            }
            19 => {
                // bytes in front of the document: a UTF-8 byte order mark (whole, or cut short), the
                // UTF-16 one, leading white space (legal JSON), an XSSI guard; whatever the framework's
                // own extractor makes of them is what the deserr extractor has to make of them
                let pre: &[u8] = *rng.pick(&[&b"\xEF\xBB\xBF"[..], b"\xEF\xBB\xBF", b"\xEF\xBB", b"\xFE\xFF", b" \n\t", b")]}'\n"]);
                body = [pre, &body[..]].concat();
                body_class = "leading-bytes";
            }
            18 => {
                // the document once more, as JSON text inside a JSON string (a client that
                // stringified twice): well-formed, and a string, whatever its content looks like
                let text = String::from_utf8_lossy(&body).to_string();
                body = serde_json::to_vec(&serde_json::Value::String(text)).unwrap();
                body_class = "double-encoded";
            }
            17 => {
                // over the configured limit (set below)
                let pad = if thorough && rng.chance(1, 50) { 2 * 1024 * 1024 + 10 } else { 300 + rng.below(3000) };
                let mut s = String::from("{\"displayName\":\"");
                s.push_str(&"x".repeat(pad));
                s.push_str("\",\"id\":1,\"kind\":\"small\",\"pair\":[1,true]}");
                body = s.into_bytes();
                body_class = "large";
            }
            _ => {}
        }
        let content_type = match rng.below(12) {
            0 => None,
            1 => Some("text/plain".to_string()),
            2 => Some("application/json; charset=utf-8".to_string()),
            3 => Some("application/vnd.api+json".to_string()),
            4 => Some("garbage".to_string()),
            5 => Some("application/jsonx".to_string()),
            6 => Some("APPLICATION/JSON".to_string()),
            _ => Some("application/json".to_string()),
        };
        let content_length = match rng.below(10) {
            0 => Some(body.len().to_string()),
            1 => Some((body.len() / 2).to_string()),
            2 => Some("99999999".to_string()),
            3 => Some("abc".to_string()),
            4 => Some((body.len() + 7).to_string()),
            _ => None,
        };
        let mut script = cut_script(&body, &mut rng, &mut sink);
        // stream faults
        match rng.below(14) {
            0 => {
                // error at a chosen step
                let at = rng.below(script.len());
                script.truncate(at);
                script.push(Step::Error(rng.below(5) as u8));
            }
            1 => {
                // early EOF: drop the tail of the script
                let at = rng.below(script.len());
                script.truncate(at);
                script.push(Step::End);
            }
            2 => {
                // a chunk delivered twice
                if let Some(i) = (0..script.len()).find(|i| matches!(script[*i], Step::Chunk(_))) {
                    let c = script[i].clone();
                    script.insert(i, c);
                }
            }
            _ => {}
        }
        if framework == Framework::AxumJson && rng.chance(1, 8) {
            if let Some(Step::End) = script.last() {
                let at = script.len() - 1;
                script.insert(at, Step::Trailers);
            }
        }
        let limit = match rng.below(6) {
            0 => Some(16 + rng.below(64)),
            1 => Some(256 + rng.below(1024)),
            2 => Some(65536),
            _ => None,
        };
        requests.push(ReqSpec {
            framework,
            target,
            err,
            body,
            body_class: body_class.to_string(),
            content_type,
            content_length,
            script,
            limit: if framework == Framework::ActixJson { limit } else { None },
            ctype_required: !rng.chance(1, 6),
            custom_predicate: rng.chance(1, 6),
            custom_handler: rng.chance(1, 6),
            axum_limit: if framework == Framework::AxumJson { limit } else { None },
            query: String::new(),
            via_request: false,
            query2: None,
            extras: if rng.chance(1, 4) { [1u8, 1, 4, 5][rng.below(4)] } else { 0 },
        });
    }
    Scenario { seed, index, sched_seed, requests, p_spurious_pm, p_drop_pm, choices: vec![] }
}
