//! httpsim: engine B, the HTTP extractor simulator (C20).
//!
//! The deserr extractors (`AwebJson`, `AwebQueryParameter`, `AxumJson`) run as tasks of a
//! hand-written, seeded, single-threaded executor over scripted body streams. For every request
//! two tasks are spawned over identical copies of the stream script: the extractor under test
//! and the reference leg (the framework's own `Json<serde_json::Value>` extractor followed by
//! `deserr::deserialize`). No thread, socket, timer or runtime: the clock is the executor's
//! step counter and every wake-up is scheduled by the simulator.
//!
//!   httpsim check [--tier quick|thorough] [--scenarios N] [--max-seconds S] [--threads T] [--fp-log F]
//!   httpsim replay <file>

mod exec;
mod gen;
mod legs;

use exec::{run_scenario, ScenarioResult};
use gen::{generate, Scenario};
use simcore::rng::{mix, Fnv};
use std::collections::{BTreeMap, HashSet};
use std::io::Write;
use std::sync::atomic::{AtomicBool, AtomicU64, Ordering};
use std::sync::Mutex;
use std::time::Instant;

fn harness_error(msg: &str) -> ! {
    eprintln!("HARNESS-ERROR: {msg}");
    std::process::exit(2);
}

fn arg_value(args: &[String], name: &str) -> Option<String> {
    args.iter().position(|a| a == name).and_then(|i| args.get(i + 1).cloned())
}

#[derive(Default)]
pub struct Stats {
    pub scenarios: u64,
    pub requests: u64,
    pub polls: u64,
    pub steps: u64,
    pub counters: BTreeMap<String, u64>,
    pub fingerprints: HashSet<u64>,
    pub nontrivial: HashSet<u64>,
    pub samples: Vec<serde_json::Value>,
}

impl Stats {
    pub fn bump(&mut self, k: &str, n: u64) {
        if n > 0 {
            *self.counters.entry(k.to_string()).or_insert(0) += n;
        }
    }
    fn merge(&mut self, o: Stats) {
        self.scenarios += o.scenarios;
        self.requests += o.requests;
        self.polls += o.polls;
        self.steps += o.steps;
        for (k, v) in o.counters {
            *self.counters.entry(k).or_insert(0) += v;
        }
        self.fingerprints.extend(o.fingerprints);
        self.nontrivial.extend(o.nontrivial);
        self.samples.extend(o.samples);
    }
}

fn minimise(scn: &Scenario, rule: &str) -> (Scenario, usize) {
    let fails = |s: &Scenario| -> bool {
        let mut st = Stats::default();
        run_scenario(s, &mut st).violations.iter().any(|v| v.rule == rule)
    };
    let mut best = scn.clone();
    let mut attempts = 0;
    let mut progress = true;
    while progress && attempts < 1500 {
        progress = false;
        // fewer concurrent requests
        let mut i = 0;
        while best.requests.len() > 1 && i < best.requests.len() {
            let mut c = best.clone();
            c.requests.remove(i);
            c.choices.clear();
            attempts += 1;
            if fails(&c) {
                best = c;
                progress = true;
            } else {
                i += 1;
            }
        }
        // no scheduler faults
        for f in 0..3 {
            let mut c = best.clone();
            match f {
                0 if c.p_spurious_pm > 0 => c.p_spurious_pm = 0,
                1 if c.p_drop_pm > 0 => c.p_drop_pm = 0,
                2 if !c.choices.is_empty() => c.choices.clear(),
                _ => continue,
            }
            attempts += 1;
            if fails(&c) {
                best = c;
                progress = true;
            }
        }
        // simpler stream scripts: drop Pendings, merge chunks
        for r in 0..best.requests.len() {
            let mut c = best.clone();
            let before = c.requests[r].script.len();
            c.requests[r].script.retain(|s| !matches!(s, gen::Step::Pending(_)));
            if c.requests[r].script.len() != before {
                c.choices.clear();
                attempts += 1;
                if fails(&c) {
                    best = c;
                    progress = true;
                }
            }
            let mut c = best.clone();
            if gen::merge_chunks(&mut c.requests[r].script) {
                c.choices.clear();
                attempts += 1;
                if fails(&c) {
                    best = c;
                    progress = true;
                }
            }
            // plain configuration
            let mut c = best.clone();
            if c.requests[r].plain_config() {
                c.choices.clear();
                attempts += 1;
                if fails(&c) {
                    best = c;
                    progress = true;
                }
            }
        }
    }
    (best, attempts)
}

fn write_replay(scn: &Scenario, res: &ScenarioResult, rule: &str, attempts: usize) -> String {
    let dir = "/verif/replays";
    let _ = std::fs::create_dir_all(dir);
    let v = res.violations.iter().find(|v| v.rule == rule).unwrap();
    let path = format!("{dir}/C20-seed{}-run{}-{}.json", scn.seed, scn.index, rule);
    let j = serde_json::json!({
        "engine": "httpsim",
        "property": "C20",
        "rule": rule,
        "message": v.msg,
        "scenario": scn.to_json(),
        "schedule": res.choices,
        "trace": res.trace,
        "expected_fingerprint": res.fingerprint.to_string(),
        "minimisation_attempts": attempts,
        "replay": format!("/verif/check replay {path}"),
    });
    std::fs::write(&path, serde_json::to_string_pretty(&j).unwrap()).unwrap_or_else(|e| harness_error(&format!("write {path}: {e}")));
    path
}

fn cmd_replay(file: &str) -> i32 {
    let text = std::fs::read_to_string(file).unwrap_or_else(|e| harness_error(&format!("cannot read {file}: {e}")));
    let j: serde_json::Value = serde_json::from_str(&text).unwrap_or_else(|e| harness_error(&format!("bad replay file: {e}")));
    let rule = j.get("rule").and_then(|r| r.as_str()).unwrap_or_else(|| harness_error("replay: rule")).to_string();
    let mut scn = Scenario::from_json(j.get("scenario").unwrap_or_else(|| harness_error("replay: scenario"))).unwrap_or_else(|| harness_error("replay: cannot decode scenario"));
    // follow the recorded schedule exactly
    scn.choices = j.get("schedule").and_then(|s| s.as_array()).map(|a| a.iter().filter_map(|x| x.as_u64()).map(|x| x as u32).collect()).unwrap_or_default();
    let want = j.get("expected_fingerprint").and_then(|f| f.as_str()).unwrap_or("").to_string();
    let mut st = Stats::default();
    let res = run_scenario(&scn, &mut st);
    println!("replay: property=C20 rule={rule} requests={}", scn.requests.len());
    for t in &res.trace {
        println!("    {t}");
    }
    match res.violations.iter().find(|v| v.rule == rule) {
        Some(v) => {
            println!("reproduced: {}", v.msg);
            println!("trace fingerprint {} (recorded {want}): {}", res.fingerprint, if res.fingerprint.to_string() == want { "identical" } else { "DIFFERENT" });
            println!("VIOLATION property=C20 replay={file}");
            1
        }
        None => {
            println!("not reproduced: the scenario passes rule {rule} on the current tree");
            0
        }
    }
}

fn main() {
    let args: Vec<String> = std::env::args().collect();
    std::panic::set_hook(Box::new(|_| {}));
    match args.get(1).map(|s| s.as_str()) {
        Some("replay") => {
            let f = args.get(2).unwrap_or_else(|| harness_error("replay needs a file"));
            std::process::exit(cmd_replay(f));
        }
        Some("check") => std::process::exit(cmd_check(&args)),
        _ => harness_error("usage: httpsim check [...] | replay <file>"),
    }
}

fn cmd_check(args: &[String]) -> i32 {
    let tier = arg_value(args, "--tier").or_else(|| std::env::var("VERIF_TIER").ok()).unwrap_or_else(|| "quick".into());
    let tier = if tier == "thorough" { "thorough" } else { "quick" };
    let seed: u64 = std::env::var("VERIF_SEED").ok().and_then(|s| s.parse().ok()).unwrap_or(1);
    let (def_n, def_s) = if tier == "thorough" { (6_000_000u64, 900.0) } else { (300_000u64, 90.0) };
    let n: u64 = arg_value(args, "--scenarios").and_then(|s| s.parse().ok()).unwrap_or(def_n);
    let max_seconds: f64 = arg_value(args, "--max-seconds").and_then(|s| s.parse().ok()).unwrap_or(def_s);
    let threads: usize = arg_value(args, "--threads").and_then(|s| s.parse().ok()).unwrap_or_else(|| std::thread::available_parallelism().map(|n| n.get()).unwrap_or(4).min(16));
    let fp_log = arg_value(args, "--fp-log");
    let evidence_path = arg_value(args, "--evidence").unwrap_or_else(|| "/verif/evidence/C20.json".to_string());
    // the slice of the seed's scenario index space this process covers (the thorough tier is run as
    // several processes, one slice each: the framework's test request leaks a few KB per request)
    let first: u64 = arg_value(args, "--from").and_then(|s| s.parse().ok()).unwrap_or(0);
    let n = first + n;
    println!("VERIF_SEED={seed} property=C20 tier={tier} scenarios {first}..{n} threads={threads}");

    let start = Instant::now();
    let next = AtomicU64::new(first);
    let stop = AtomicBool::new(false);
    let total = Mutex::new(Stats::default());
    let bad: Mutex<Vec<(u64, Scenario, ScenarioResult)>> = Mutex::new(vec![]);
    let fps: Mutex<Vec<(u64, u64)>> = Mutex::new(vec![]);
    let thorough = tier == "thorough";
    std::thread::scope(|s| {
        for _ in 0..threads {
            s.spawn(|| {
                let mut st = Stats::default();
                let mut local: Vec<(u64, u64)> = vec![];
                loop {
                    if stop.load(Ordering::Relaxed) {
                        break;
                    }
                    let from = next.fetch_add(64, Ordering::Relaxed);
                    if from >= n {
                        break;
                    }
                    for i in from..(from + 64).min(n) {
                        let scn = generate(mix(seed, 20, 0), i, thorough);
                        let res = run_scenario(&scn, &mut st);
                        if fp_log.is_some() {
                            local.push((i, res.fingerprint));
                        }
                        if i < first + 3 {
                            st.samples.push(serde_json::json!({"scenario_index": i, "scenario": scn.to_json(), "schedule": res.choices, "trace": res.trace}));
                        }
                        if !res.violations.is_empty() {
                            bad.lock().unwrap().push((i, scn, res));
                        }
                    }
                    if start.elapsed().as_secs_f64() > max_seconds {
                        stop.store(true, Ordering::Relaxed);
                    }
                }
                total.lock().unwrap().merge(st);
                fps.lock().unwrap().extend(local);
            });
        }
    });
    let mut stats = total.into_inner().unwrap();
    let wall = start.elapsed().as_secs_f64();
    stats.samples.sort_by_key(|s| s.get("scenario_index").and_then(|x| x.as_u64()).unwrap_or(0));
    if let Some(p) = fp_log {
        let mut v = fps.into_inner().unwrap();
        v.sort();
        let mut f = std::fs::File::create(&p).unwrap_or_else(|e| harness_error(&format!("write {p}: {e}")));
        for (i, fp) in v {
            let _ = writeln!(f, "{i} {fp:016x}");
        }
    }
    let mut bad = bad.into_inner().unwrap();
    bad.sort_by_key(|b| b.0);
    let mut exit = 0;
    let mut reported: Vec<String> = vec![];
    for (_, scn, res) in &bad {
        let rule = res.violations[0].rule.to_string();
        if reported.contains(&rule) {
            continue;
        }
        reported.push(rule.clone());
        let (min_scn, attempts) = minimise(scn, &rule);
        let mut st = Stats::default();
        let res2 = run_scenario(&min_scn, &mut st);
        if !res2.violations.iter().any(|v| v.rule == rule) {
            harness_error("minimised scenario no longer fails: nondeterminism in the harness");
        }
        let path = write_replay(&min_scn, &res2, &rule, attempts);
        let exe = std::env::current_exe().unwrap_or_else(|e| harness_error(&format!("current_exe: {e}")));
        match std::process::Command::new(exe).arg("replay").arg(&path).output() {
            Ok(o) if o.status.code() == Some(1) => {}
            Ok(o) => harness_error(&format!("replay of {path} in a fresh process did not reproduce (exit {:?})", o.status.code())),
            Err(e) => harness_error(&format!("spawn replay: {e}")),
        }
        let v = res2.violations.iter().find(|v| v.rule == rule).unwrap();
        println!("violation: rule={rule}");
        println!("  {}", v.msg);
        println!("VIOLATION property=C20 replay={path}");
        exit = 1;
        if reported.len() >= 3 {
            break;
        }
    }
    let faults: BTreeMap<String, u64> = stats.counters.iter().filter(|(k, _)| k.starts_with("fault_") || k.starts_with("sched_")).map(|(k, v)| (k.clone(), *v)).collect();
    let probes: BTreeMap<String, u64> = stats.counters.iter().filter(|(k, _)| k.starts_with("probe_")).map(|(k, v)| (k.clone(), *v)).collect();
    let other: BTreeMap<String, u64> = stats.counters.iter().filter(|(k, _)| !(k.starts_with("fault_") || k.starts_with("sched_") || k.starts_with("probe_"))).map(|(k, v)| (k.clone(), *v)).collect();
    let evidence = serde_json::json!({
        "property_id": "C20",
        "tier": tier,
        "seed": seed,
        "level": "exploration",
        "coverage": {
            "evaluations": stats.requests,
            "distinct_nontrivial": stats.nontrivial.len(),
            "rule": "each scenario = 1-4 concurrent requests (actix JSON / actix query / axum JSON) with generated body (valid, ill-typed, malformed, empty, over-limit), headers, extractor configuration knobs and a scripted body stream (seeded chunk cuts, Pending with delayed wake, stream errors, truncation, trailing garbage); a seeded executor interleaves the extractor-under-test task and the reference-leg task (framework Json<Value> + deserr::deserialize) of every request, with spurious polls and task drops. evaluations = requests decided by the differential oracle; a request is non-trivial when its body stream had at least two steps or a fault, or the outcome is a rejection; distinct = distinct (request spec shape, schedule, outcome) fingerprints.",
            "samples": stats.samples,
            "scenarios": stats.scenarios,
            "requests": stats.requests,
            "task_polls": stats.polls,
            "simulated_time": {"unit": "executor steps (discrete-event: the clock jumps to the next scheduled wake when nothing is runnable)", "steps": stats.steps},
            "scenarios_per_hour": if wall > 0.0 { (stats.scenarios as f64 / wall * 3600.0) as u64 } else { 0 },
            "requests_per_hour": if wall > 0.0 { (stats.requests as f64 / wall * 3600.0) as u64 } else { 0 },
            "seeds": {"VERIF_SEED": seed, "scenario_index_from": first, "scenario_index_to_exclusive_upper_bound": n, "scenarios_completed": stats.scenarios},
            "distinct_traces": stats.fingerprints.len(),
            "faults_and_schedule": faults,
            "reach_probes": probes,
            "counters": other,
            "components": {
                "real": ["deserr AwebJson / AwebJsonExtractFut / AwebQueryParameter / AxumJson / AxumJsonRejection / JsonError response impls", "actix-web Json, JsonBody, JsonConfig, Query, HttpRequest (TestRequest)", "axum Json / Bytes extraction, DefaultBodyLimit", "serde_json parsing", "deserr::deserialize and derive output"],
                "stub": ["connection layer", "request body stream (actix Payload::Stream / http_body::Body)", "executor, waker and clock", "HTTP server / router (extractors are called directly)"]
            },
            "violating_scenarios": bad.len(),
            "exhaustive": false
        },
        "assumptions": [
            "framework behaviour is not specified by me: the reference leg runs the framework's own extractor on an identical copy of the scripted stream",
            "for JsonError the expected response is built independently (status 400, body = message); for the harness error type its own ResponseError/IntoResponse mapping",
            "extractors are called directly; routing and the connection layer are out of scope"
        ],
        "wall_s": wall,
        "violations": if exit == 1 { reported.len() } else { 0 }
    });
    if let Some(dir) = std::path::Path::new(&evidence_path).parent() {
        let _ = std::fs::create_dir_all(dir);
    }
    std::fs::write(&evidence_path, serde_json::to_string_pretty(&evidence).unwrap()).unwrap_or_else(|e| harness_error(&format!("write evidence: {e}")));
    println!(
        "C20: {} scenarios, {} requests, {} task polls, {} distinct traces ({} non-trivial), {:.1}s, {} violating scenarios",
        stats.scenarios, stats.requests, stats.polls, stats.fingerprints.len(), stats.nontrivial.len(), wall, bad.len()
    );
    if exit == 0 && stats.nontrivial.len() < 2 {
        harness_error("fewer than two distinct non-trivial traces");
    }
    let _ = Fnv::new();
    exit
}
