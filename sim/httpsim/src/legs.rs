//! The two legs of the differential, for every (framework, target type, error type): the deserr
//! extractor under test, and the reference leg = the framework's own `Json<serde_json::Value>` /
//! `Query<serde_json::Value>` extractor followed by `deserr::deserialize`.

use crate::exec::{SimBody, SimStream, StreamHandle};
use crate::gen::{ErrTy, Framework, ReqSpec, Target};
use deserr::actix_web::{AwebJson, AwebQueryParameter};
use deserr::axum::{AxumJson, AxumJsonRejection};
use deserr::errors::JsonError;
use deserr::{DeserializeError, Deserr, ErrorKind, IntoValue, MergeWithError, ValuePointerRef};
use std::collections::HashMap;
use std::fmt::Debug;
use std::future::Future;
use std::ops::ControlFlow;
use std::pin::Pin;

// --- target types ----------------------------------------------------------------------------------

#[derive(Debug, PartialEq, Deserr)]
#[deserr(rename_all = lowercase)]
pub enum Kind {
    Small,
    Large,
}

#[derive(Debug, PartialEq, Deserr)]
pub struct Inner {
    pub x: f64,
    #[deserr(default)]
    pub y: Option<String>,
}

#[derive(Debug, PartialEq, Deserr)]
#[deserr(deny_unknown_fields, rename_all = camelCase)]
pub struct Item {
    pub id: u32,
    pub display_name: String,
    #[deserr(default)]
    pub tags: Vec<String>,
    pub kind: Kind,
    #[deserr(default)]
    pub inner: Option<Inner>,
    pub pair: (i8, bool),
}

#[derive(Debug, PartialEq, Deserr)]
#[deserr(tag = "type")]
pub enum Shape {
    Circle { r: u8 },
    Rect { w: u8, h: u8 },
    Unit,
}

#[derive(Debug, PartialEq, Deserr)]
#[deserr(deny_unknown_fields)]
pub struct QueryArgs {
    pub q: String,
    #[deserr(default)]
    pub limit: Option<String>,
    #[deserr(default)]
    pub page: Option<String>,
}

// --- a second, accumulating error type with its own response mapping -------------------------------

#[derive(Debug, Clone, PartialEq)]
pub struct TokErr(pub Vec<String>);

fn loc_string(l: ValuePointerRef) -> String {
    match l {
        ValuePointerRef::Origin => "$".to_string(),
        ValuePointerRef::Key { key, prev } => format!("{}.{key}", loc_string(*prev)),
        ValuePointerRef::Index { index, prev } => format!("{}[{index}]", loc_string(*prev)),
    }
}

impl DeserializeError for TokErr {
    fn error<V: IntoValue>(self_: Option<Self>, error: ErrorKind<V>, location: ValuePointerRef) -> ControlFlow<Self, Self> {
        let mut v = self_.map(|s| s.0).unwrap_or_default();
        let k = match error {
            ErrorKind::IncorrectValueKind { accepted, .. } => format!("kind{accepted:?}"),
            ErrorKind::MissingField { field } => format!("missing:{field}"),
            ErrorKind::UnknownKey { key, .. } => format!("unknown-key:{key}"),
            ErrorKind::UnknownValue { value, .. } => format!("unknown-value:{value}"),
            ErrorKind::BadSequenceLen { expected, .. } => format!("len:{expected}"),
            ErrorKind::Unexpected { msg } => format!("unexpected:{msg}"),
        };
        v.push(format!("{k}@{}", loc_string(location)));
        ControlFlow::Continue(TokErr(v))
    }
}

impl MergeWithError<TokErr> for TokErr {
    fn merge(self_: Option<Self>, other: TokErr, l: ValuePointerRef) -> ControlFlow<Self, Self> {
        // a hand-over leaves a trace of its own: an extractor that hands the error over once more
        // than deserr::deserialize does is not returning "exactly the deserr error"
        let mut v = self_.map(|s| s.0).unwrap_or_default();
        v.extend(other.0);
        v.push(format!("handed-over@{}", loc_string(l)));
        ControlFlow::Continue(TokErr(v))
    }
}

impl std::fmt::Display for TokErr {
    fn fmt(&self, f: &mut std::fmt::Formatter<'_>) -> std::fmt::Result {
        write!(f, "TOK[{}]", self.0.join(";"))
    }
}

impl TokErr {
    /// the harness error type chooses its own status, not always a 4xx one
    fn status(&self) -> u16 {
        match self.0.first().map(|s| s.as_str()).unwrap_or("") {
            s if s.starts_with("missing") => 503,
            s if s.starts_with("unknown-key") => 409,
            s if s.starts_with("unknown-value") => 202,
            _ => 418,
        }
    }
}

impl actix_web::ResponseError for TokErr {
    fn status_code(&self) -> actix_web::http::StatusCode {
        actix_web::http::StatusCode::from_u16(self.status()).unwrap()
    }
    fn error_response(&self) -> actix_web::HttpResponse<actix_web::body::BoxBody> {
        actix_web::HttpResponseBuilder::new(self.status_code()).insert_header(("x-tok", "1")).body(self.to_string())
    }
}

impl axum::response::IntoResponse for TokErr {
    fn into_response(self) -> axum::response::Response {
        (http::StatusCode::from_u16(self.status()).unwrap(), [("x-tok", "1")], self.to_string()).into_response()
    }
}

// --- normalised outcome ------------------------------------------------------------------------------

#[derive(Clone, Debug, PartialEq)]
pub enum Out {
    /// Debug rendering of the extracted value
    Ok(String),
    /// the rejection is a deserr error: its Debug rendering, and the response it maps to
    /// (`announced` is what `ResponseError::status_code()` says, `status` what the response has)
    DeserrErr { err: String, status: u16, announced: u16, body: Vec<u8>, tok_header: bool },
    /// framework-level rejection; `rest` is what is left of the request body afterwards
    Framework { status: u16, announced: u16, body: Vec<u8>, display: String, rest: String },
    Panic(String),
}

impl Out {
    pub fn render(&self) -> String {
        match self {
            Out::Ok(v) => format!("Ok({v})"),
            Out::DeserrErr { err, status, announced, body, tok_header } => {
                format!("DeserrErr({err}) -> {status} (status_code() announces {announced}) {:?} tok_header={tok_header}", String::from_utf8_lossy(body))
            }
            Out::Framework { status, announced, body, display, rest } => format!(
                "Framework({status} (status_code() announces {announced}) {:?} display={display:?} body left unread: {rest})",
                String::from_utf8_lossy(body)
            ),
            Out::Panic(m) => format!("PANIC {m}"),
        }
    }
    pub fn class(&self) -> &'static str {
        match self {
            Out::Ok(_) => "ok",
            Out::DeserrErr { .. } => "deserr-error",
            Out::Framework { .. } => "framework-rejection",
            Out::Panic(_) => "panic",
        }
    }
}

fn actix_resp(e: &actix_web::Error) -> (u16, Vec<u8>, bool, u16) {
    use actix_web::body::MessageBody;
    let announced = e.as_response_error().status_code().as_u16();
    let resp = e.error_response();
    let status = resp.status().as_u16();
    let tok = resp.headers().contains_key("x-tok");
    let body = match resp.into_body().try_into_bytes() {
        Ok(b) => b.to_vec(),
        Err(_) => b"<streaming body>".to_vec(),
    };
    (status, body, tok, announced)
}

/// What is left of an actix request body once the extractor is done with the request: the next
/// few chunks (a bounded look, so that a multi-megabyte body left unread stays unread and costs
/// neither steps nor memory). Both legs see the same scripted stream, so what they find left is
/// comparable chunk for chunk.
async fn drain(mut p: actix_web::dev::Payload) -> String {
    use futures::StreamExt;
    let mut bytes: Vec<u8> = vec![];
    let mut chunks = 0usize;
    let mut ended = false;
    while chunks < 24 && bytes.len() < 2048 {
        match p.next().await {
            None => {
                ended = true;
                break;
            }
            Some(Ok(b)) => {
                chunks += 1;
                bytes.extend_from_slice(&b);
            }
            Some(Err(e)) => return format!("{} bytes in {chunks} chunks then the stream error {e}", bytes.len()),
        }
    }
    let mut h = 0xcbf2_9ce4_8422_2325u64;
    for x in &bytes {
        h = (h ^ *x as u64).wrapping_mul(0x0000_0100_0000_01B3);
    }
    format!("{} bytes in {chunks} chunks (fnv {h:016x}){}", bytes.len(), if ended { ", then the end of the stream" } else { ", more follows (not read)" })
}

/// Poll a future that never waits (collecting an in-memory response body).
fn now_or_never<F: Future>(f: F) -> Option<F::Output> {
    let waker = futures::task::noop_waker();
    let mut cx = std::task::Context::from_waker(&waker);
    let mut f = Box::pin(f);
    for _ in 0..64 {
        if let std::task::Poll::Ready(x) = f.as_mut().poll(&mut cx) {
            return Some(x);
        }
    }
    None
}

fn axum_resp(r: axum::response::Response) -> (u16, Vec<u8>, bool) {
    use http_body_util::BodyExt;
    let status = r.status().as_u16();
    let tok = r.headers().contains_key("x-tok");
    let body = now_or_never(r.into_body().collect()).and_then(|c| c.ok()).map(|c| c.to_bytes().to_vec()).unwrap_or_else(|| b"<unreadable body>".to_vec());
    (status, body, tok)
}

pub type LegFut = Pin<Box<dyn Future<Output = Out>>>;

/// expected response of a deserr error, built independently of deserr's own response impls
pub trait ExpectedResponse: Debug {
    fn expected(&self) -> (u16, Vec<u8>, bool);
}
impl ExpectedResponse for JsonError {
    fn expected(&self) -> (u16, Vec<u8>, bool) {
        (400, self.to_string().into_bytes(), false)
    }
}
impl ExpectedResponse for TokErr {
    fn expected(&self) -> (u16, Vec<u8>, bool) {
        (self.status(), self.to_string().into_bytes(), true)
    }
}

// --- actix -------------------------------------------------------------------------------------------

fn actix_request(spec: &ReqSpec) -> actix_web::HttpRequest {
    use actix_web::test::TestRequest;
    let mut r = TestRequest::default();
    if spec.framework == Framework::ActixQuery {
        r = r.uri(&format!("/search?{}", spec.query));
    }
    if let Some(ct) = &spec.content_type {
        r = r.insert_header(("content-type", ct.as_str()));
    }
    if let Some(cl) = &spec.content_length {
        r = r.insert_header(("content-length", cl.as_str()));
    }
    if spec.extras & 1 != 0 {
        r = r.insert_header(("accept", "application/json, text/plain;q=0.5"));
    }
    if spec.extras & 2 != 0 {
        r = r.param("uid", "movies");
    }
    let mut cfg = actix_web::web::JsonConfig::default();
    let mut any = false;
    if let Some(l) = spec.limit {
        cfg = cfg.limit(l);
        any = true;
    }
    if !spec.ctype_required {
        cfg = cfg.content_type_required(false);
        any = true;
    }
    if spec.custom_predicate {
        cfg = cfg.content_type(|m| m.type_() == "text");
        any = true;
    }
    if spec.custom_handler {
        cfg = cfg.error_handler(|err, _req| {
            actix_web::error::InternalError::from_response(
                format!("custom:{err}"),
                actix_web::HttpResponse::Conflict().body(format!("custom handler: {err}")),
            )
            .into()
        });
        any = true;
    }
    if any {
        r = r.app_data(cfg);
    }
    r.to_http_request()
}

fn actix_under_test<T, E>(spec: &ReqSpec, h: StreamHandle) -> LegFut
where
    T: Deserr<E> + Debug + 'static,
    E: DeserializeError + actix_web::ResponseError + ExpectedResponse + 'static,
{
    use actix_web::FromRequest;
    let req = actix_request(spec);
    let boxed: actix_http::BoxedPayloadStream = Box::pin(SimStream::new(h));
    let mut payload = if spec.extras & 4 != 0 { actix_web::dev::Payload::None } else { actix_web::dev::Payload::Stream { payload: boxed } };
    let fut = AwebJson::<T, E>::from_request(&req, &mut payload);
    Box::pin(async move {
        let _keep = req;
        match fut.await {
            Ok(v) => Out::Ok(format!("{:?}", v.into_inner())),
            Err(e) => {
                let (status, body, tok, announced) = actix_resp(&e);
                match e.as_error::<E>() {
                    Some(de) => Out::DeserrErr { err: format!("{de:?}"), status, announced, body, tok_header: tok },
                    None => Out::Framework { status, announced, body, display: e.to_string(), rest: drain(payload).await },
                }
            }
        }
    })
}

fn actix_reference<T, E>(spec: &ReqSpec, h: StreamHandle) -> LegFut
where
    T: Deserr<E> + Debug + 'static,
    E: DeserializeError + ExpectedResponse + 'static,
{
    use actix_web::FromRequest;
    let req = actix_request(spec);
    let boxed: actix_http::BoxedPayloadStream = Box::pin(SimStream::new(h));
    let mut payload = if spec.extras & 4 != 0 { actix_web::dev::Payload::None } else { actix_web::dev::Payload::Stream { payload: boxed } };
    let fut = actix_web::web::Json::<serde_json::Value>::from_request(&req, &mut payload);
    Box::pin(async move {
        let _keep = req;
        match fut.await {
            Err(e) => {
                let (status, body, _, announced) = actix_resp(&e);
                Out::Framework { status, announced, body, display: e.to_string(), rest: drain(payload).await }
            }
            Ok(doc) => match deserr::deserialize::<T, _, E>(doc.into_inner()) {
                Ok(v) => Out::Ok(format!("{v:?}")),
                Err(de) => {
                    let (status, body, tok) = de.expected();
                    Out::DeserrErr { err: format!("{de:?}"), status, announced: status, body, tok_header: tok }
                }
            },
        }
    })
}

fn query_under_test<T, E>(spec: &ReqSpec) -> LegFut
where
    T: Deserr<E> + Debug + 'static,
    E: DeserializeError + actix_web::ResponseError + ExpectedResponse + 'static,
{
    use actix_web::FromRequest;
    let map = |r: Result<AwebQueryParameter<T, E>, actix_web::Error>| match r {
        Ok(v) => Out::Ok(format!("{:?}", v.into_inner())),
        Err(e) => {
            let (status, body, tok, announced) = actix_resp(&e);
            match e.as_error::<E>() {
                Some(de) => Out::DeserrErr { err: format!("{de:?}"), status, announced, body, tok_header: tok },
                None => Out::Framework { status, announced, body, display: e.to_string(), rest: String::new() },
            }
        }
    };
    if spec.via_request {
        if let Some(q2) = spec.query2.clone() {
            // two extractions from one request, the URI rewritten in between
            let q1 = spec.query.clone();
            return Box::pin(async move {
                let mut srv = actix_web::test::TestRequest::default().uri(&format!("/search?{q1}")).to_srv_request();
                let mut payload = actix_web::dev::Payload::None;
                let first = map(AwebQueryParameter::<T, E>::from_request(srv.request(), &mut payload).await);
                if let Ok(uri) = format!("/search?{q2}").parse::<actix_web::http::Uri>() {
                    srv.head_mut().uri = uri;
                }
                let second = map(AwebQueryParameter::<T, E>::from_request(srv.request(), &mut payload).await);
                Out::Ok(format!("first: {} || second (current query {:?}): {}", first.render(), srv.request().query_string(), second.render()))
            });
        }
        let req = actix_request(spec);
        let mut payload = actix_web::dev::Payload::None;
        let fut = AwebQueryParameter::<T, E>::from_request(&req, &mut payload);
        Box::pin(async move {
            let _keep = req;
            map(fut.await)
        })
    } else {
        let q = spec.query.clone();
        Box::pin(async move { map(AwebQueryParameter::<T, E>::from_query(&q)) })
    }
}

fn query_reference<T, E>(spec: &ReqSpec) -> LegFut
where
    T: Deserr<E> + Debug + 'static,
    E: DeserializeError + ExpectedResponse + 'static,
{
    let one = |q: String| -> Out {
        match actix_web::web::Query::<serde_json::Value>::from_query(&q) {
            Err(e) => {
                let e: actix_web::Error = e.into();
                let (status, body, _, announced) = actix_resp(&e);
                Out::Framework { status, announced, body, display: e.to_string(), rest: String::new() }
            }
            Ok(doc) => match deserr::deserialize::<T, _, E>(doc.into_inner()) {
                Ok(v) => Out::Ok(format!("{v:?}")),
                Err(de) => {
                    let (status, body, tok) = de.expected();
                    Out::DeserrErr { err: format!("{de:?}"), status, announced: status, body, tok_header: tok }
                }
            },
        }
    };
    if spec.via_request {
        if let Some(q2) = spec.query2.clone() {
            let q1 = spec.query.clone();
            return Box::pin(async move {
                // what the request's query string is at each moment, as the framework sees it
                let mut srv = actix_web::test::TestRequest::default().uri(&format!("/search?{q1}")).to_srv_request();
                let first = one(srv.request().query_string().to_string());
                if let Ok(uri) = format!("/search?{q2}").parse::<actix_web::http::Uri>() {
                    srv.head_mut().uri = uri;
                }
                let second = one(srv.request().query_string().to_string());
                Out::Ok(format!("first: {} || second (current query {:?}): {}", first.render(), srv.request().query_string(), second.render()))
            });
        }
    }
    let q = spec.query.clone();
    Box::pin(async move {
        match actix_web::web::Query::<serde_json::Value>::from_query(&q) {
            Err(e) => {
                let e: actix_web::Error = e.into();
                let (status, body, _, announced) = actix_resp(&e);
                Out::Framework { status, announced, body, display: e.to_string(), rest: String::new() }
            }
            Ok(doc) => match deserr::deserialize::<T, _, E>(doc.into_inner()) {
                Ok(v) => Out::Ok(format!("{v:?}")),
                Err(de) => {
                    let (status, body, tok) = de.expected();
                    Out::DeserrErr { err: format!("{de:?}"), status, announced: status, body, tok_header: tok }
                }
            },
        }
    })
}

// --- axum ----------------------------------------------------------------------------------------------

struct Capture(std::sync::Arc<std::sync::Mutex<Option<axum::extract::Request>>>);

impl tower_service::Service<axum::extract::Request> for Capture {
    type Response = ();
    type Error = std::convert::Infallible;
    type Future = std::future::Ready<Result<(), std::convert::Infallible>>;
    fn poll_ready(&mut self, _: &mut std::task::Context<'_>) -> std::task::Poll<Result<(), Self::Error>> {
        std::task::Poll::Ready(Ok(()))
    }
    fn call(&mut self, req: axum::extract::Request) -> Self::Future {
        *self.0.lock().unwrap() = Some(req);
        std::future::ready(Ok(()))
    }
}

fn axum_request(spec: &ReqSpec, h: StreamHandle) -> axum::extract::Request {
    let mut b = http::Request::builder().method("POST").uri("/items");
    if let Some(ct) = &spec.content_type {
        b = b.header("content-type", ct.as_str());
    }
    if let Some(cl) = &spec.content_length {
        b = b.header("content-length", cl.as_str());
    }
    let req = b.body(axum::body::Body::new(SimBody::new(h))).expect("request");
    match spec.axum_limit {
        None => req,
        Some(l) => {
            // apply axum's DefaultBodyLimit the way a router would: through its Layer
            use tower_layer::Layer;
            use tower_service::Service;
            let slot = std::sync::Arc::new(std::sync::Mutex::new(None));
            let mut svc = axum::extract::DefaultBodyLimit::max(l).layer(Capture(slot.clone()));
            let _ = svc.call(req);
            let r = slot.lock().unwrap().take().expect("captured request");
            r
        }
    }
}

fn axum_under_test<T, E>(spec: &ReqSpec, h: StreamHandle) -> LegFut
where
    T: Deserr<E> + Debug + 'static,
    E: DeserializeError + axum::response::IntoResponse + ExpectedResponse + std::fmt::Display + 'static,
{
    use axum::extract::FromRequest;
    use axum::response::IntoResponse;
    let req = axum_request(spec, h);
    Box::pin(async move {
        match AxumJson::<T, E>::from_request(req, &()).await {
            Ok(v) => Out::Ok(format!("{:?}", v.into_inner())),
            Err(AxumJsonRejection::DeserrError(e)) => {
                let err = format!("{e:?}");
                let (status, body, tok) = axum_resp(AxumJsonRejection::DeserrError(e).into_response());
                Out::DeserrErr { err, status, announced: status, body, tok_header: tok }
            }
            Err(rej @ AxumJsonRejection::JsonRejection(_)) => {
                // Display and IntoResponse of the rejection wrapper are deserr code under test
                let display = rej.to_string();
                let (status, body, _) = axum_resp(rej.into_response());
                Out::Framework { status, announced: status, body, display, rest: String::new() }
            }
        }
    })
}

fn axum_reference<T, E>(spec: &ReqSpec, h: StreamHandle) -> LegFut
where
    T: Deserr<E> + Debug + 'static,
    E: DeserializeError + ExpectedResponse + 'static,
{
    use axum::extract::FromRequest;
    use axum::response::IntoResponse;
    let req = axum_request(spec, h);
    Box::pin(async move {
        match axum::Json::<serde_json::Value>::from_request(req, &()).await {
            Err(r) => {
                let display = r.to_string();
                let (status, body, _) = axum_resp(r.into_response());
                Out::Framework { status, announced: status, body, display, rest: String::new() }
            }
            Ok(axum::Json(doc)) => match deserr::deserialize::<T, _, E>(doc) {
                Ok(v) => Out::Ok(format!("{v:?}")),
                Err(de) => {
                    let (status, body, tok) = de.expected();
                    Out::DeserrErr { err: format!("{de:?}"), status, announced: status, body, tok_header: tok }
                }
            },
        }
    })
}

// --- dispatch -------------------------------------------------------------------------------------------

fn pair<T, E>(spec: &ReqSpec, a: StreamHandle, b: StreamHandle) -> (LegFut, LegFut)
where
    T: Deserr<E> + Debug + 'static,
    E: DeserializeError + actix_web::ResponseError + axum::response::IntoResponse + ExpectedResponse + std::fmt::Display + 'static,
{
    match spec.framework {
        Framework::ActixJson => (actix_under_test::<T, E>(spec, a), actix_reference::<T, E>(spec, b)),
        Framework::AxumJson => (axum_under_test::<T, E>(spec, a), axum_reference::<T, E>(spec, b)),
        Framework::ActixQuery => (query_under_test::<T, E>(spec), query_reference::<T, E>(spec)),
    }
}

fn pair_e<E>(spec: &ReqSpec, a: StreamHandle, b: StreamHandle) -> (LegFut, LegFut)
where
    E: DeserializeError + actix_web::ResponseError + axum::response::IntoResponse + ExpectedResponse + std::fmt::Display + 'static,
{
    match spec.target {
        Target::Item => pair::<Item, E>(spec, a, b),
        Target::VecItem => pair::<Vec<Item>, E>(spec, a, b),
        Target::Shape => pair::<Shape, E>(spec, a, b),
        Target::MapU16 => pair::<HashMapSorted, E>(spec, a, b),
        Target::Json => pair::<serde_json::Value, E>(spec, a, b),
        Target::Query => pair::<QueryArgs, E>(spec, a, b),
    }
}

/// (extractor under test, reference leg)
pub fn legs(spec: &ReqSpec, a: StreamHandle, b: StreamHandle) -> (LegFut, LegFut) {
    match spec.err {
        ErrTy::JsonError => pair_e::<JsonError>(spec, a, b),
        ErrTy::Tok => pair_e::<TokErr>(spec, a, b),
    }
}

/// a map target whose Debug output does not depend on hash order
pub struct HashMapSorted(pub HashMap<String, u16>);

impl Debug for HashMapSorted {
    fn fmt(&self, f: &mut std::fmt::Formatter<'_>) -> std::fmt::Result {
        let mut v: Vec<(&String, &u16)> = self.0.iter().collect();
        v.sort();
        write!(f, "{v:?}")
    }
}

impl<E: DeserializeError> Deserr<E> for HashMapSorted {
    fn deserialize_from_value<V: IntoValue>(value: deserr::Value<V>, location: ValuePointerRef) -> Result<Self, E> {
        HashMap::<String, u16>::deserialize_from_value(value, location).map(HashMapSorted)
    }
}
