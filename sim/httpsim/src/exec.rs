//! The simulated body streams, the seeded executor, and the differential oracle.

use crate::gen::{Framework, Scenario, Step};
use crate::legs::{legs, LegFut, Out};
use crate::Stats;
use bytes::Bytes;
use simcore::rng::{Fnv, Rng};
use std::panic::{catch_unwind, AssertUnwindSafe};
use std::pin::Pin;
use std::sync::atomic::{AtomicBool, AtomicU64, Ordering};
use std::sync::{Arc, Mutex};
use std::task::{Context, Poll, Wake, Waker};

pub struct Clock {
    pub step: u64,
    /// (due step, waker, stream id)
    pub timers: Vec<(u64, Waker, usize)>,
}

pub struct StreamState {
    pub id: usize,
    pub script: Vec<Step>,
    pub pos: usize,
    pub waiting_until: Option<u64>,
    pub wake_owed: bool,
    pub consumed: usize,
    pub polls: u64,
    pub done: bool,
}

#[derive(Clone)]
pub struct StreamHandle {
    pub st: Arc<Mutex<StreamState>>,
    pub clock: Arc<Mutex<Clock>>,
}

enum Item {
    Trailers,
    Data(Vec<u8>),
    Error(u8),
    End,
    Pending,
}

impl StreamHandle {
    fn poll_item(&self, cx: &mut Context<'_>) -> Item {
        let mut s = self.st.lock().unwrap();
        let mut clock = self.clock.lock().unwrap();
        s.polls += 1;
        if let Some(t) = s.waiting_until {
            if clock.step < t {
                // polled again before the wake fired (spurious poll): keep waiting, newest waker wins
                let id = s.id;
                clock.timers.retain(|x| x.2 != id);
                clock.timers.push((t, cx.waker().clone(), id));
                s.wake_owed = true;
                return Item::Pending;
            }
            s.waiting_until = None;
        }
        if s.done || s.pos >= s.script.len() {
            s.done = true;
            s.wake_owed = false;
            return Item::End;
        }
        let step = s.script[s.pos].clone();
        s.pos += 1;
        s.consumed += 1;
        match step {
            Step::Chunk(b) => {
                s.wake_owed = false;
                Item::Data(b)
            }
            Step::Pending(n) => {
                s.wake_owed = true;
                if n == 0 {
                    cx.waker().wake_by_ref();
                } else {
                    let due = clock.step + n as u64;
                    s.waiting_until = Some(due);
                    let id = s.id;
                    clock.timers.push((due, cx.waker().clone(), id));
                }
                Item::Pending
            }
            Step::Trailers => {
                s.wake_owed = false;
                Item::Trailers
            }
            Step::Error(k) => {
                s.done = true;
                s.wake_owed = false;
                Item::Error(k)
            }
            Step::End => {
                s.done = true;
                s.wake_owed = false;
                Item::End
            }
        }
    }
}

/// actix: `Payload::Stream`
pub struct SimStream(StreamHandle);

impl SimStream {
    pub fn new(h: StreamHandle) -> SimStream {
        SimStream(h)
    }
}

fn payload_error(k: u8) -> actix_http::error::PayloadError {
    use actix_http::error::PayloadError as P;
    match k % 5 {
        0 => P::Incomplete(None),
        1 => P::EncodingCorrupted,
        2 => P::Overflow,
        3 => P::UnknownLength,
        _ => P::Io(std::io::Error::new(std::io::ErrorKind::ConnectionReset, "simulated reset")),
    }
}

impl futures::Stream for SimStream {
    type Item = Result<Bytes, actix_http::error::PayloadError>;
    fn poll_next(self: Pin<&mut Self>, cx: &mut Context<'_>) -> Poll<Option<Self::Item>> {
        match self.0.poll_item(cx) {
            Item::Data(b) => Poll::Ready(Some(Ok(Bytes::from(b)))),
            Item::Trailers => Poll::Ready(Some(Ok(Bytes::new()))),
            Item::Error(k) => Poll::Ready(Some(Err(payload_error(k)))),
            Item::End => Poll::Ready(None),
            Item::Pending => Poll::Pending,
        }
    }
}

/// axum: `http_body::Body`
pub struct SimBody(StreamHandle);

impl SimBody {
    pub fn new(h: StreamHandle) -> SimBody {
        SimBody(h)
    }
}

impl http_body::Body for SimBody {
    type Data = Bytes;
    type Error = std::io::Error;
    fn poll_frame(self: Pin<&mut Self>, cx: &mut Context<'_>) -> Poll<Option<Result<http_body::Frame<Bytes>, Self::Error>>> {
        match self.0.poll_item(cx) {
            Item::Data(b) => Poll::Ready(Some(Ok(http_body::Frame::data(Bytes::from(b))))),
            Item::Trailers => {
                let mut h = http::HeaderMap::new();
                h.insert("x-checksum", http::HeaderValue::from_static("abc"));
                Poll::Ready(Some(Ok(http_body::Frame::trailers(h))))
            }
            Item::Error(k) => Poll::Ready(Some(Err(std::io::Error::new(std::io::ErrorKind::ConnectionReset, format!("simulated stream error {k}"))))),
            Item::End => Poll::Ready(None),
            Item::Pending => Poll::Pending,
        }
    }
}

struct WakeState {
    ready: AtomicBool,
    wakes: AtomicU64,
}

impl Wake for WakeState {
    fn wake(self: Arc<Self>) {
        self.ready.store(true, Ordering::SeqCst);
        self.wakes.fetch_add(1, Ordering::SeqCst);
    }
    fn wake_by_ref(self: &Arc<Self>) {
        self.ready.store(true, Ordering::SeqCst);
        self.wakes.fetch_add(1, Ordering::SeqCst);
    }
}

struct Task {
    name: String,
    req: usize,
    under_test: bool,
    fut: Option<LegFut>,
    ws: Arc<WakeState>,
    out: Option<Out>,
    polls: u32,
    dropped: bool,
    stream: Option<StreamHandle>,
}

#[derive(Clone, Debug)]
pub struct Violation {
    pub rule: &'static str,
    pub msg: String,
}

pub struct ScenarioResult {
    pub violations: Vec<Violation>,
    pub trace: Vec<String>,
    pub choices: Vec<u32>,
    pub fingerprint: u64,
}

struct Sched {
    forced: Vec<u32>,
    pos: usize,
    rng: Rng,
    taken: Vec<u32>,
}

impl Sched {
    fn below(&mut self, n: usize) -> usize {
        let c = if self.pos < self.forced.len() {
            (self.forced[self.pos] as usize) % n.max(1)
        } else {
            self.rng.below(n.max(1))
        };
        self.pos += 1;
        self.taken.push(c as u32);
        c
    }
}

fn panic_msg(p: Box<dyn std::any::Any + Send>) -> String {
    if let Some(s) = p.downcast_ref::<&str>() {
        s.to_string()
    } else if let Some(s) = p.downcast_ref::<String>() {
        s.clone()
    } else {
        "non-string panic".into()
    }
}

pub fn run_scenario(scn: &Scenario, stats: &mut Stats) -> ScenarioResult {
    let clock = Arc::new(Mutex::new(Clock { step: 0, timers: vec![] }));
    let mut tasks: Vec<Task> = vec![];
    let mut trace: Vec<String> = vec![];
    let mut violations: Vec<Violation> = vec![];
    stats.scenarios += 1;
    for (ri, spec) in scn.requests.iter().enumerate() {
        let mk = |id: usize| StreamHandle {
            st: Arc::new(Mutex::new(StreamState {
                id,
                script: spec.script.clone(),
                pos: 0,
                waiting_until: None,
                wake_owed: false,
                consumed: 0,
                polls: 0,
                done: false,
            })),
            clock: clock.clone(),
        };
        let (ha, hb) = (mk(ri * 2), mk(ri * 2 + 1));
        let built = catch_unwind(AssertUnwindSafe(|| legs(spec, ha.clone(), hb.clone())));
        let (fa, fb) = match built {
            Ok(x) => x,
            Err(p) => {
                violations.push(Violation { rule: "E-total", msg: format!("building the extractor futures for request {ri} panicked: {}", panic_msg(p)) });
                continue;
            }
        };
        let has_stream = spec.framework != Framework::ActixQuery;
        for (under_test, fut, h) in [(true, fa, ha), (false, fb, hb)] {
            tasks.push(Task {
                name: format!("req{ri}/{}", if under_test { "extractor" } else { "reference" }),
                req: ri,
                under_test,
                fut: Some(fut),
                ws: Arc::new(WakeState { ready: AtomicBool::new(true), wakes: AtomicU64::new(0) }),
                out: None,
                polls: 0,
                dropped: false,
                stream: if has_stream { Some(h) } else { None },
            });
        }
        // reach counters from the spec
        stats.bump(&format!("requests_{:?}", spec.framework), 1);
        stats.bump(&format!("body_class_{}", spec.body_class), 1);
        stats.bump("fault_chunk_boundaries", spec.script.iter().filter(|s| matches!(s, Step::Chunk(_))).count().saturating_sub(1) as u64);
        stats.bump("fault_stream_pending", spec.script.iter().filter(|s| matches!(s, Step::Pending(_))).count() as u64);
        stats.bump("fault_stream_error", spec.script.iter().filter(|s| matches!(s, Step::Error(_))).count() as u64);
        stats.bump("fault_trailers_frame", spec.script.iter().filter(|s| matches!(s, Step::Trailers)).count() as u64);
        stats.bump("fault_empty_chunk", spec.script.iter().filter(|s| matches!(s, Step::Chunk(b) if b.is_empty())).count() as u64);
        let streamed: usize = spec.script.iter().map(|s| if let Step::Chunk(b) = s { b.len() } else { 0 }).sum();
        if has_stream && streamed < spec.body.len() {
            stats.bump("fault_stream_truncated", 1);
        }
        if has_stream && streamed > spec.body.len() {
            stats.bump("fault_chunk_duplicated", 1);
        }
        if spec.limit.is_some() || spec.axum_limit.is_some() {
            stats.bump("knob_body_limit", 1);
        }
        if !spec.ctype_required {
            stats.bump("knob_content_type_not_required", 1);
        }
        if spec.custom_predicate {
            stats.bump("knob_custom_content_type_predicate", 1);
        }
        if spec.custom_handler {
            stats.bump("knob_custom_error_handler", 1);
        }
        if spec.content_type.as_deref() != Some("application/json") {
            stats.bump("fault_unusual_content_type", 1);
        }
        if spec.content_length.is_some() {
            stats.bump("fault_content_length_header", 1);
        }
    }

    let mut sched = Sched { forced: scn.choices.clone(), pos: 0, rng: Rng::new(scn.sched_seed), taken: vec![] };
    let mut iterations = 0u64;
    loop {
        iterations += 1;
        if iterations > 200_000 {
            violations.push(Violation { rule: "E-progress", msg: "step budget exhausted: tasks keep running without finishing".into() });
            break;
        }
        // advance the clock and fire due wake-ups
        let due: Vec<Waker> = {
            let mut c = clock.lock().unwrap();
            c.step += 1;
            let now = c.step;
            let mut fired = vec![];
            let mut i = 0;
            while i < c.timers.len() {
                if c.timers[i].0 <= now {
                    fired.push(c.timers.remove(i).1);
                } else {
                    i += 1;
                }
            }
            fired
        };
        for w in due {
            w.wake();
        }
        let unfinished: Vec<usize> = (0..tasks.len()).filter(|i| tasks[*i].fut.is_some()).collect();
        if unfinished.is_empty() {
            break;
        }
        let ready: Vec<usize> = unfinished.iter().copied().filter(|i| tasks[*i].ws.ready.load(Ordering::SeqCst)).collect();
        if ready.is_empty() {
            // nothing runnable: jump the clock to the next scheduled wake-up
            let mut c = clock.lock().unwrap();
            match c.timers.iter().map(|t| t.0).min() {
                Some(t) => {
                    if t > c.step {
                        stats.bump("sched_clock_jumps", 1);
                        c.step = t - 1;
                    }
                    continue;
                }
                None => break, // nobody will ever wake the remaining tasks
            }
        }
        let roll = sched.below(1000) as u32;
        if roll < scn.p_drop_pm {
            // the client goes away: drop a task mid-flight
            let i = unfinished[sched.below(unfinished.len())];
            let f = tasks[i].fut.take();
            tasks[i].dropped = true;
            let r = catch_unwind(AssertUnwindSafe(move || drop(f)));
            trace.push(format!("step {}: drop {}", clock.lock().unwrap().step, tasks[i].name));
            stats.bump("sched_task_dropped", 1);
            if let Err(p) = r {
                if tasks[i].under_test {
                    violations.push(Violation { rule: "E-total", msg: format!("dropping {} mid-flight panicked: {}", tasks[i].name, panic_msg(p)) });
                }
            }
            continue;
        }
        let not_ready: Vec<usize> = unfinished.iter().copied().filter(|i| !ready.contains(i)).collect();
        let (i, spurious) = if roll < scn.p_drop_pm + scn.p_spurious_pm && !not_ready.is_empty() {
            stats.bump("sched_spurious_poll", 1);
            (not_ready[sched.below(not_ready.len())], true)
        } else {
            (ready[sched.below(ready.len())], false)
        };
        let t = &mut tasks[i];
        t.ws.ready.store(false, Ordering::SeqCst);
        t.polls += 1;
        stats.polls += 1;
        let was_done = t.stream.as_ref().map(|h| h.st.lock().unwrap().done).unwrap_or(false);
        let waker = Waker::from(t.ws.clone());
        let mut cx = Context::from_waker(&waker);
        let mut fut = t.fut.take().unwrap();
        let polled = catch_unwind(AssertUnwindSafe(|| fut.as_mut().poll(&mut cx)));
        let step_now = clock.lock().unwrap().step;
        match polled {
            Err(p) => {
                let m = panic_msg(p);
                trace.push(format!("step {step_now}: poll {}{} -> PANIC {m}", t.name, if spurious { " (spurious)" } else { "" }));
                t.out = Some(Out::Panic(m));
            }
            Ok(Poll::Ready(o)) => {
                trace.push(format!("step {step_now}: poll {}{} -> Ready {}", t.name, if spurious { " (spurious)" } else { "" }, o.render()));
                t.out = Some(o);
            }
            Ok(Poll::Pending) => {
                let (owed, pos) = t.stream.as_ref().map(|h| {
                    let s = h.st.lock().unwrap();
                    (s.wake_owed, s.pos)
                }).unwrap_or((false, 0));
                trace.push(format!("step {step_now}: poll {}{} -> Pending (stream step {pos})", t.name, if spurious { " (spurious)" } else { "" }));
                let woken = t.ws.ready.load(Ordering::SeqCst);
                if t.under_test {
                    if was_done {
                        violations.push(Violation { rule: "E-progress", msg: format!("{} returned Pending although its body stream had already ended", t.name) });
                    } else if !owed && !woken {
                        violations.push(Violation { rule: "E-progress", msg: format!("{} returned Pending in a poll in which its body stream did not return Pending: no wake-up is owed", t.name) });
                    }
                }
                t.fut = Some(fut);
            }
        }
    }
    let steps = clock.lock().unwrap().step;
    stats.steps += steps;

    // --- oracle ---------------------------------------------------------------------------------
    for ri in 0..scn.requests.len() {
        let a = tasks.iter().find(|t| t.req == ri && t.under_test);
        let b = tasks.iter().find(|t| t.req == ri && !t.under_test);
        let (a, b) = match (a, b) {
            (Some(a), Some(b)) => (a, b),
            _ => continue,
        };
        if !a.dropped && a.out.is_none() {
            violations.push(Violation {
                rule: "E-progress",
                msg: format!("{} never completed: it is waiting but nothing will wake it (wakes received: {})", a.name, a.ws.wakes.load(Ordering::SeqCst)),
            });
            continue;
        }
        if a.dropped || b.dropped {
            stats.bump("requests_cut_short_by_a_dropped_task", 1);
            continue;
        }
        let (oa, ob) = match (&a.out, &b.out) {
            (Some(x), Some(y)) => (x, y),
            _ => continue,
        };
        stats.requests += 1;
        stats.bump(&format!("outcome_{}", ob.class()), 1);
        match (oa, ob) {
            (Out::Panic(m), Out::Panic(_)) => {
                let _ = m; // the framework itself panics on this input: not the extractor's doing
            }
            (Out::Panic(m), _) => violations.push(Violation { rule: "E-total", msg: format!("{} panicked: {m}", a.name) }),
            (x, y) if x != y => violations.push(Violation {
                rule: "E-same",
                msg: format!(
                    "request {ri} ({:?} {:?} {:?}, body class {}): the extractor gave {} but the framework's own extractor followed by deserr::deserialize gives {}",
                    scn.requests[ri].framework,
                    scn.requests[ri].target,
                    scn.requests[ri].err,
                    scn.requests[ri].body_class,
                    x.render(),
                    y.render()
                ),
            }),
            _ => {}
        }
        if let (Some(sa), Some(sb)) = (&a.stream, &b.stream) {
            let (ca, cb) = (sa.st.lock().unwrap().consumed, sb.st.lock().unwrap().consumed);
            if ca != cb {
                violations.push(Violation {
                    rule: "E-same",
                    msg: format!("request {ri}: the extractor consumed {ca} steps of the body stream, the reference leg {cb}"),
                });
            }
        }
    }
    let mut f = Fnv::new();
    for t in &trace {
        f.str(t);
    }
    let fp = f.finish();
    stats.fingerprints.insert(fp);
    let nontrivial = scn.requests.iter().any(|r| r.script.len() >= 3 || r.script.iter().any(|s| matches!(s, Step::Pending(_) | Step::Error(_))))
        || tasks.iter().any(|t| !matches!(t.out, Some(Out::Ok(_))));
    if nontrivial {
        stats.nontrivial.insert(fp);
    }
    ScenarioResult { violations, trace, choices: sched.taken, fingerprint: fp }
}
