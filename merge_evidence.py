#!/usr/bin/env python3
"""merge_evidence.py <out> <tier> <pass0> <pass1> ...: pass 0 = the committed catalogue, pass 50 =
the uniform catalogue, passes 1.. = regenerated catalogues (thorough tier). Counts that are sums over passes are summed; distinct counts are
NOT summed (the hand-written part of every catalogue is the same): distinct_nontrivial is pass
0's measured number and each further pass is listed with its own."""
import json, sys, re

def num(x):
    return isinstance(x, (int, float)) and not isinstance(x, bool)

def add_dict(a, b):
    for k, v in b.items():
        if num(v):
            a[k] = a.get(k, 0) + v
    return a

out, tier, files = sys.argv[1], sys.argv[2], sorted(sys.argv[3:], key=lambda f: int(re.findall(r'_(\d+)\.json$', f)[0]))
base = json.load(open(files[0]))
cov = base["coverage"]
def passno(f):
    return int(re.findall(r'_(\d+)\.json$', f)[0])
passes = [{"pass": passno(files[0]), "catalogue": cov["catalogue"], "evaluations": cov["evaluations"],
           "distinct_nontrivial": cov["distinct_nontrivial"], "scenarios": cov["scenarios"], "wall_s": base["wall_s"]}]
wall = base["wall_s"]
viol = base.get("violations", 0)
for i, f in enumerate(files[1:], 1):
    e = json.load(open(f))
    c = e["coverage"]
    passes.append({"pass": passno(f), "catalogue": c["catalogue"], "evaluations": c["evaluations"],
                   "distinct_nontrivial": c["distinct_nontrivial"], "scenarios": c["scenarios"], "wall_s": e["wall_s"]})
    for k in ("evaluations", "scenarios", "simulated_calls", "violating_scenarios"):
        cov[k] = cov.get(k, 0) + c.get(k, 0)
    cov["simulated_time"]["events"] += c["simulated_time"]["events"]
    for k in ("faults_and_answers", "reach_probes", "counters"):
        add_dict(cov[k], c.get(k, {}))
    wall += e["wall_s"]
    viol += e.get("violations", 0)
cov["catalogue_passes"] = passes
cov["programs_total_over_passes"] = sum(p["catalogue"]["programs"] for p in passes)
if wall > 0:
    cov["simulated_calls_per_hour"] = int(cov["simulated_calls"] / wall * 3600)
    cov["scenarios_per_hour"] = int(cov["scenarios"] / wall * 3600)
base["wall_s"] = wall
base["violations"] = viol
base["tier"] = tier
json.dump(base, open(out, "w"), indent=1)
